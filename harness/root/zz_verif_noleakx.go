//go:build verif

package centrifuge

import (
	"context"
	"fmt"
	"sort"
	"strings"
	"sync"
	"time"

	"github.com/centrifugal/centrifuge/internal/zzverif/vsched"
	"github.com/centrifugal/protocol"
)

// noleakx (C05, E1): nothing of a connection survives its end - the operations and close kinds
// connops-C05 does not reach.
//
// One node (memory engines, memory map broker wired with vInstallMapBrokerFor, shared poll
// manager where needed) and ONE actor connection A (user "u", bidirectional emulation transport,
// so that a hub session entry exists). One reader thread issues A's in-flight operation, one
// thread (or a timer, or the operation's own write) closes the connection:
//
//   operations
//     conn-np    connect command, OnConnecting returns Subscriptions{s: presence+join/leave}
//     conn-pos   ... {s: recovery+positioning+presence+join/leave}, s has history
//     conn-mp    ... {s: presence + MapClientPresenceChannel pc + MapUserPresenceChannel pu}
//     conn-2     ... {s: presence+join/leave, s2: recovery+positioning+presence}
//     sub-mp     client subscribe r (presence + map client/user presence channels)
//     mapeph     map subscribe, ephemeral channel m: state -> live in ONE request
//     maprec1    map subscribe, recoverable m with 2 keys, page size 1: FIRST state page
//                (the mapSubscribing reservation stays installed)
//     maprec2    ... first page done in the setup, the operation is the LAST state page:
//                state -> live transition (hub entry, commit, presence, join)
//     maplive    map subscribe directly in the live phase with recovery (reservation installed on entry)
//     spsub      shared-poll subscribe sp (presence + map presence channels)
//     sptrack    shared-poll subscription exists, the operation tracks keys a and b
//     spsubtrack subscribe then track, one reader thread
//     tick       subscription r with all presence kinds exists, the operation is a presence tick
//     tickmap    map subscription m (all presence kinds) exists, the operation is a presence tick
//   closes
//     disc    Client.Disconnect          ndisc   Node.Disconnect(u)        tclose  transport close func
//     werr    the next transport write fails (vTransport.failWrite); for connected actors a
//             Client.Send supplies a write in case the operation writes nothing
//     slow    tiny ClientQueueMaxSize: a Client.Send (conn-*: the connect reply itself) overflows the queue
//     stalecb the stale timer's callback (Client.onTimerOp) run by a thread of its own (conn-* only)
//     stale   the real stale timer: ClientStaleCloseDelay 10ms (earlier than every housekeeping timer), vsched.SetHorizon(10ms), fired as a
//             timer-first deviation (conn-* only; needs bound 2: timer-first + preemption into the timer thread)
//
// The close is placed at every point of the operation by preemption: preemption bound 1 (all
// orders of foreground threads at blocking points are free); the connect operations racing a
// closer thread and the slow-consumer closes run under delay bounding with bound 2 (their 5-6
// goroutines make the free orders explode: 50-300k executions per pair), the real stale timer
// at preemption bound 2, two cheap pairs at preemption bound 2 in the thorough tier.
// A reader whose HandleCommand returns false closes the transport, as every transport handler does.
// After the concurrent phase: WaitIdle; a connection that is still open is closed through the
// transport close func (close point "after the operation"); Advance 2s (dissolver jobs, shared
// poll shutdown); oracle; Advance past the user-presence KeyTTL; oracle for the user presence key.

const (
	nlS  = "s"
	nlS2 = "s2"
	nlR  = "r"
	nlM  = "m"
	nlSP = "sp"
	nlPC = "pc"
	nlPU = "pu"

	nlStaleDelay = 10 * time.Millisecond
	nlUserTTL    = 3 * time.Second
)

type nlCfg struct {
	op    string
	close string
}

func (c nlCfg) name() string { return c.op + "/" + c.close }

func (c nlCfg) isConn() bool { return strings.HasPrefix(c.op, "conn") }
func (c nlCfg) isSP() bool   { return strings.HasPrefix(c.op, "sp") }

// family names the code path of the operation for signatures.
func (c nlCfg) family() string {
	switch {
	case c.isConn():
		return "connect-server-side-subs"
	case c.op == "sub-mp":
		return "client-subscribe"
	case strings.HasPrefix(c.op, "map"):
		return "map-subscribe"
	case c.op == "spsub":
		return "sharedpoll-subscribe"
	case c.op == "sptrack":
		return "sharedpoll-track"
	case c.op == "spsubtrack":
		return "sharedpoll-subscribe-track"
	default:
		return "presence-tick"
	}
}

var nlCfgs = map[string]nlCfg{}

// nlAdd registers one (operation, close) pair. mode: "p1"/"p2" preemption bounding with bound
// 1/2 (all orders of foreground threads at blocking points are free); "d2"/"d3" delay bounding
// with bound 2/3 (every non-default pick costs one) for the operations whose many goroutines
// make the free orders explode (connect with server-side subscriptions: reader, one goroutine
// per subscription, writer, closer, close goroutine).
func nlAdd(out *[]vsched.Variant, op, cl, mode string, shards, budget int) {
	c := nlCfg{op: op, close: cl}
	name := c.name() + "/" + mode
	nlCfgs[name] = c
	v := vsched.Variant{Name: name, Bound: int(mode[1] - '0'), Shards: shards, BudgetS: budget}
	if mode[0] == 'd' {
		v.Delay = true
	}
	*out = append(*out, v)
}

func nlVariants(tier string) []vsched.Variant {
	var out []vsched.Variant
	if tier == "quick" {
		for _, p := range [][3]string{
			{"conn-np", "werr", "p1"}, {"conn-np", "stalecb", "p1"}, {"conn-mp", "tclose", "d2"},
			{"mapeph", "ndisc", "p1"}, {"maprec1", "tclose", "p1"}, {"maprec2", "werr", "p1"},
			{"spsub", "tclose", "p1"}, {"sptrack", "tclose", "p1"},
			{"tick", "slow", "p1"}, {"tickmap", "ndisc", "p1"}, {"sub-mp", "disc", "p1"},
		} {
			nlAdd(&out, p[0], p[1], p[2], 1, 75)
		}
		return out
	}
	// thorough: the full (operation, close) product. Preemption bound 1, except where the free
	// orders of many goroutines explode: connect operations racing a closer thread and the slow
	// consumer close (every enqueue after the overflow spawns one more close goroutine) run under
	// delay bounding with bound 2; the real stale timer needs preemption bound 2 (timer-first +
	// preemption into the timer thread).
	all := []string{"disc", "ndisc", "tclose", "werr", "slow"}
	product := []struct {
		op     string
		closes []string
	}{
		{"conn-np", []string{"disc", "ndisc", "tclose", "werr", "slow", "stalecb", "stale"}},
		{"conn-pos", []string{"disc", "tclose", "werr", "stalecb"}},
		{"conn-mp", []string{"ndisc", "tclose", "slow", "stale"}},
		{"conn-2", []string{"disc", "tclose"}},
		{"sub-mp", all}, {"mapeph", all}, {"maprec1", all}, {"maprec2", all}, {"maplive", all},
		{"spsub", all}, {"sptrack", []string{"disc", "tclose", "werr", "slow"}}, {"spsubtrack", []string{"tclose", "werr"}},
		{"tick", all}, {"tickmap", all},
	}
	for _, p := range product {
		isConn := strings.HasPrefix(p.op, "conn")
		for _, cl := range p.closes {
			mode := "p1"
			switch {
			case cl == "stale":
				mode = "p2"
			case isConn && cl != "werr" && cl != "stalecb":
				mode = "d2"
			case cl == "slow" && p.op != "tick" && p.op != "tickmap" && p.op != "maprec1":
				mode = "d2"
			}
			nlAdd(&out, p.op, cl, mode, 1, 280)
		}
	}
	// deeper: preemption bound 2 on the cheapest pairs
	for _, p := range [][2]string{{"maprec1", "tclose"}, {"tick", "tclose"}} {
		nlAdd(&out, p[0], p[1], "p2", 4, 280)
	}
	return out
}

func init() {
	vsched.Register(&vsched.Harness{
		Name: "noleakx", Props: []string{"C05"}, Kind: "sched",
		Doc: "node + one actor connection A (user u, emulation transport => hub session); reader thread runs the in-flight operation from {connect command with server-side subscriptions from OnConnecting (non-positioned / positioned with history / with map client+user presence channels / two channels), " +
			"client subscribe with map presence channels, map subscribe (ephemeral state->live in one request; recoverable first state page = reservation only; recoverable last state page = state->live transition; direct live-phase recovery) with presence, join/leave, MapClientPresenceChannel and MapUserPresenceChannel, " +
			"shared-poll subscribe, shared-poll track of 2 keys, subscribe+track, presence tick on a regular / map subscription with all presence kinds}; the close from {Client.Disconnect, Node.Disconnect(u), transport close func, transport write error (failWrite), slow consumer (ClientQueueMaxSize 512 overflowed), " +
			"stale timer callback thread, real stale timer by timer-first deviation within SetHorizon(10ms)} placed at every point of the operation by preemption (quick: selected pairs, preemption bound 1; thorough: operation x close product (every non-connect operation with every close; the four connect operations share the closes) at preemption bound 1 - connect operations racing a closer thread and slow-consumer closes under delay bounding with bound 2, the real stale timer at preemption bound 2 - plus two cheap pairs at preemption bound 2); a reader whose command returns false closes the transport; a connection still open afterwards is closed by the transport close func; " +
			"settle (WaitIdle, Advance 2s), then oracle C05 on the node: no client/user/session in the hub, no routing entry for A in any channel used, NumSubscriptions and NumChannels 0, presence empty for every channel used, no map client-presence key for A, keyed hub without A and no tracked key left in the shared poll manager, " +
			"connections_inflight and subscriptions_inflight gauges back to their values before A was created; after advancing past the user-presence KeyTTL: no user-presence key for u",
		Variants: nlVariants,
		Sched:    func(v vsched.Variant) func() { return nlBody(nlCfgs[v.Name]) },
	})
}

func nlBody(cfg nlCfg) func() {
	return func() {
		vsched.Quiet(true)
		var events []string
		ev := func(format string, a ...any) {
			vsched.Visible()
			events = append(events, fmt.Sprintf(format, a...))
		}
		mapMode := MapModeEphemeral
		if strings.HasPrefix(cfg.op, "maprec") || cfg.op == "maplive" {
			mapMode = MapModeRecoverable
		}
		n := vNewNode(func(c *Config) {
			if cfg.close == "stale" {
				c.ClientStaleCloseDelay = nlStaleDelay
			}
			if cfg.close == "slow" {
				c.ClientQueueMaxSize = 512
			}
			c.Map.GetMapChannelOptions = func(ch string) MapChannelOptions {
				switch ch {
				case nlM:
					return MapChannelOptions{Mode: mapMode, KeyTTL: time.Hour, MinPageSize: 1}
				case nlPU:
					return MapChannelOptions{Mode: MapModeEphemeral, KeyTTL: nlUserTTL}
				default:
					return MapChannelOptions{Mode: MapModeEphemeral, KeyTTL: time.Hour}
				}
			}
			if cfg.isSP() {
				c.SharedPoll.GetSharedPollChannelOptions = func(ch string) (SharedPollChannelOptions, bool) {
					return SharedPollChannelOptions{RefreshInterval: time.Second, Mode: SharedPollModeVersioned, KeepLatestData: true}, ch == nlSP
				}
			}
		})
		vInstallMapBrokerFor(n, nlM, nlPC, nlPU)
		if cfg.isSP() {
			n.OnSharedPoll(func(_ context.Context, e SharedPollEvent) (SharedPollResult, error) {
				vsched.Visible()
				res := SharedPollResult{}
				for _, it := range e.Items {
					res.Items = append(res.Items, SharedPollRefreshItem{Key: it.Key, Version: 1, Data: []byte(`{"k":"` + it.Key + `"}`)})
				}
				return res, nil
			})
		}
		allPresence := SubscribeOptions{EmitPresence: true, EmitJoinLeave: true, PushJoinLeave: true, MapClientPresenceChannel: nlPC, MapUserPresenceChannel: nlPU}
		if cfg.isConn() {
			n.OnConnecting(func(_ context.Context, e ConnectEvent) (ConnectReply, error) {
				vsched.Visible()
				r := ConnectReply{Subscriptions: map[string]SubscribeOptions{}}
				switch cfg.op {
				case "conn-np":
					r.Subscriptions[nlS] = SubscribeOptions{EmitPresence: true, EmitJoinLeave: true, PushJoinLeave: true}
				case "conn-pos":
					r.Subscriptions[nlS] = SubscribeOptions{EmitPresence: true, EmitJoinLeave: true, PushJoinLeave: true, EnableRecovery: true, EnablePositioning: true}
				case "conn-mp":
					r.Subscriptions[nlS] = SubscribeOptions{EmitPresence: true, MapClientPresenceChannel: nlPC, MapUserPresenceChannel: nlPU}
				case "conn-2":
					r.Subscriptions[nlS] = SubscribeOptions{EmitPresence: true, EmitJoinLeave: true, PushJoinLeave: true}
					r.Subscriptions[nlS2] = SubscribeOptions{EmitPresence: true, EnableRecovery: true, EnablePositioning: true}
				}
				if cfg.close == "slow" {
					r.Data = []byte(`"` + strings.Repeat("x", 600) + `"`)
				}
				return r, nil
			})
		}
		n.OnConnect(func(c *Client) {
			ev("connect")
			c.OnSubscribe(func(e SubscribeEvent, cb SubscribeCallback) {
				vsched.Visible()
				o := allPresence
				if e.Channel == nlM {
					o.Type = SubscriptionTypeMap
				}
				cb(SubscribeReply{Options: o}, nil)
			})
			c.OnTrack(func(e TrackEvent, cb TrackCallback) {
				vsched.Visible()
				cb(TrackReply{}, nil)
			})
			c.OnUnsubscribe(func(e UnsubscribeEvent) { ev("unsubscribe:%s", e.Channel) })
			c.OnDisconnect(func(e DisconnectEvent) { ev("disconnect:%d", e.Code) })
			c.OnAlive(func() { ev("alive") })
		})
		if err := n.Run(); err != nil {
			panic(err)
		}
		connGauge0 := vGaugeSum(n.metrics.connectionsInflight)
		subGauge0 := vGaugeSum(n.metrics.subscriptionsInflight)

		// ---- setup
		t := vNewTransport()
		t.emulation = true
		act := vNewClient(n, t, &Credentials{UserID: "u"})
		actorID := act.c.ID()
		session := act.c.sessionID()
		settle := func() { vsched.WaitIdle() }
		mapPut := func(key string) StreamPosition {
			res, err := n.MapPublish(context.Background(), nlM, key, MapPublishOptions{Data: []byte(`{"k":"` + key + `"}`)})
			if err != nil {
				panic(err)
			}
			return res.Position
		}
		mapReq := func(phase int32, limit int32) *protocol.SubscribeRequest {
			return &protocol.SubscribeRequest{Channel: nlM, Type: int32(SubscriptionTypeMap), Phase: phase, Limit: limit}
		}
		lastSubReply := func() *protocol.SubscribeResult {
			for i := len(t.frames) - 1; i >= 0; i-- {
				if r := t.frames[i].Reply; r.Subscribe != nil && r.Error == nil {
					return r.Subscribe
				}
			}
			panic("noleakx: setup subscribe got no reply: " + strings.Join(t.log(), " | "))
		}
		spSubscribe := func() bool {
			return act.cmd(&protocol.Command{Subscribe: &protocol.SubscribeRequest{Channel: nlSP, Type: int32(SubscriptionTypeSharedPoll)}})
		}
		spTrack := func() bool {
			return act.cmd(&protocol.Command{SubRefresh: &protocol.SubRefreshRequest{Channel: nlSP, Type: typeTrack, Track: []*protocol.TrackBatch{{Items: []*protocol.KeyedItem{{Key: "a"}, {Key: "b"}}}}}})
		}
		if cfg.op == "conn-pos" || cfg.op == "conn-2" {
			ch := nlS
			if cfg.op == "conn-2" {
				ch = nlS2
			}
			if _, err := n.Publish(ch, []byte(`{"pre":1}`), WithHistory(10, time.Minute)); err != nil {
				panic(err)
			}
		}
		var page2 *protocol.SubscribeRequest
		var livePos StreamPosition
		if !cfg.isConn() {
			act.connect()
			settle()
			switch cfg.op {
			case "mapeph", "maprec1", "maprec2", "maplive", "tickmap":
				mapPut("k1")
				livePos = mapPut("k2")
			}
			switch cfg.op {
			case "maprec2":
				act.cmd(&protocol.Command{Subscribe: mapReq(MapPhaseState, 1)})
				settle()
				r := lastSubReply()
				if r.Cursor == "" {
					panic("noleakx: first state page has no cursor")
				}
				page2 = mapReq(MapPhaseState, 1)
				page2.Cursor, page2.Offset, page2.Epoch = r.Cursor, r.Offset, r.Epoch
			case "sptrack":
				spSubscribe()
			case "tick":
				act.subscribe(nlR)
			case "tickmap":
				act.cmd(&protocol.Command{Subscribe: mapReq(MapPhaseState, 100)})
			}
			settle()
			switch cfg.op {
			case "sptrack", "tick", "tickmap":
				ch := map[string]string{"sptrack": nlSP, "tick": nlR, "tickmap": nlM}[cfg.op]
				if !act.c.IsSubscribed(ch) {
					panic("noleakx: setup subscription to " + ch + " not established: " + strings.Join(t.log(), " | "))
				}
			}
		}
		setupFrames := len(t.frames)
		if cfg.close == "werr" {
			t.failWrite = t.writes + 1
		}
		vsched.Quiet(false)
		if cfg.close == "stale" {
			vsched.SetHorizon(int64(nlStaleDelay))
		}

		// ---- concurrent phase
		var wg sync.WaitGroup
		run := func(f func()) {
			wg.Add(1)
			go func() {
				defer wg.Done()
				f()
			}()
		}
		run(func() { // the connection's reader
			ok := true
			switch cfg.op {
			case "conn-np", "conn-pos", "conn-mp", "conn-2":
				ok = act.connect()
			case "sub-mp":
				ok = act.subscribe(nlR)
			case "mapeph":
				ok = act.cmd(&protocol.Command{Subscribe: mapReq(MapPhaseState, 100)})
			case "maprec1":
				ok = act.cmd(&protocol.Command{Subscribe: mapReq(MapPhaseState, 1)})
			case "maprec2":
				ok = act.cmd(&protocol.Command{Subscribe: page2})
			case "maplive":
				r := mapReq(MapPhaseLive, 100)
				r.Recover, r.Offset, r.Epoch = true, livePos.Offset, livePos.Epoch
				ok = act.cmd(&protocol.Command{Subscribe: r})
			case "spsub":
				ok = spSubscribe()
			case "sptrack":
				ok = spTrack()
			case "spsubtrack":
				ok = spSubscribe() && spTrack()
			case "tick", "tickmap":
				act.c.updatePresence()
			default:
				panic("noleakx: unknown op " + cfg.op)
			}
			if !ok {
				_ = act.close() // what every transport handler does when HandleCommand returns false
			}
		})
		big := []byte(`"` + strings.Repeat("y", 600) + `"`)
		switch cfg.close {
		case "disc":
			run(func() { act.c.Disconnect(DisconnectForceNoReconnect) })
		case "ndisc":
			run(func() { _ = n.Disconnect("u") })
		case "tclose":
			run(func() { _ = act.close() })
		case "stalecb":
			run(func() { act.c.onTimerOp() })
		case "werr":
			if !cfg.isConn() {
				run(func() { _ = act.c.Send([]byte(`"w"`)) })
			}
		case "slow":
			if !cfg.isConn() {
				run(func() { _ = act.c.Send(big) })
			}
		case "stale":
		default:
			panic("noleakx: unknown close " + cfg.close)
		}
		wg.Wait()
		vsched.WaitIdle()
		vsched.Quiet(true)
		how := "in-flight"
		if act.c.status != statusClosed {
			how = "after-operation"
			_ = act.close()
			vsched.WaitIdle()
		}
		vsched.Advance(2 * vSec)

		// ---- observations
		for _, l := range t.log()[min(setupFrames, len(t.frames)):] {
			vsched.Logf("A %s", strings.ReplaceAll(l, actorID, "A"))
		}
		vsched.Logf("events=%v close=%s closeDisc=%d", events, how, t.closeDisc.Code)

		// ---- oracle
		fam := cfg.family()
		ctx := fmt.Sprintf("%s, close %s (%s), events %v, frames %s", cfg.name(), cfg.close, how, events, strings.Join(t.log(), " | "))
		fail := func(clause, format string, a ...any) {
			vsched.Failf(clause+":"+fam, "%s [%s]", fmt.Sprintf(format, a...), ctx)
		}
		if act.c.status != statusClosed {
			fail("not-closed", "connection is not closed after the transport close func returned")
			return
		}
		if uc := n.hub.UserConnections("u"); len(uc) != 0 || n.hub.NumClients() != 0 || n.hub.NumUsers() != 0 {
			fail("hub-client-left", "hub still holds clients=%d users=%d connections of u=%d", n.hub.NumClients(), n.hub.NumUsers(), len(uc))
		}
		n.hub.sessionsMu.RLock()
		_, hasSession := n.hub.sessions[session]
		numSessions := len(n.hub.sessions)
		n.hub.sessionsMu.RUnlock()
		if session == "" {
			panic("noleakx: actor has no session id")
		}
		if hasSession || numSessions != 0 {
			fail("hub-session-left", "hub still holds %d sessions (A's: %v)", numSessions, hasSession)
		}
		chans := []string{nlS, nlS2, nlR, nlM, nlSP}
		for _, ch := range chans {
			if _, has := vHubSub(n, ch, actorID); has {
				fail("routing-entry-left", "closed connection still has a routing entry for %s", ch)
			}
		}
		if n.hub.NumSubscriptions() != 0 || n.hub.NumChannels() != 0 {
			fail("hub-sub-counts", "hub counts subscriptions=%d channels=%d after the only connection closed", n.hub.NumSubscriptions(), n.hub.NumChannels())
		}
		for _, ch := range chans {
			res, err := n.Presence(ch)
			if err != nil {
				panic(err)
			}
			if len(res.Presence) != 0 {
				var ids []string
				for id := range res.Presence {
					ids = append(ids, strings.ReplaceAll(id, actorID, "A"))
				}
				sort.Strings(ids)
				fail("presence-left", "presence of %s still holds %v", ch, ids)
			}
		}
		mapKeys := func(ch string) []string {
			res, err := n.MapStateRead(context.Background(), ch, MapReadStateOptions{Limit: -1})
			if err != nil {
				panic(err)
			}
			var ks []string
			for _, p := range res.Publications {
				ks = append(ks, p.Key)
			}
			sort.Strings(ks)
			return ks
		}
		for _, k := range mapKeys(nlPC) {
			if k == actorID {
				fail("map-client-presence-left", "map client presence channel %s still holds the key of the closed connection", nlPC)
			}
		}
		if cfg.isSP() {
			if hub := n.keyedManager.getHub(nlSP); hub != nil {
				for _, c := range hub.collectAllClients() {
					if c == act.c {
						keys := []string{}
						for _, k := range []string{"a", "b"} {
							if hub.hasSubscriber(k, act.c) {
								keys = append(keys, k)
							}
						}
						fail("keyed-hub-subscriber-left", "keyed hub of %s still lists the closed connection for keys %v", nlSP, keys)
					}
				}
			}
			if _, numKeys := n.sharedPollManager.stats(); numKeys != 0 {
				fail("sharedpoll-key-left", "shared poll manager still tracks %d keys after the only connection closed", numKeys)
			}
		}
		tracked := 0
		if act.c.keyed != nil {
			for _, m := range act.c.keyed.trackedKeys {
				tracked += len(m)
			}
			tracked += len(act.c.keyed.channels)
		}
		// State held by the closed *Client object itself is not a trace kept by the node (the property
		// speaks of routing entries, registered connections / sessions, presence, keyed-tracking
		// registrations and gauges): it is logged as an observation, never reported. A first version
		// reported a c.mapSubscribing reservation left on a closed client; that demanded more than the
		// property states and was withdrawn.
		if len(act.c.channels) != 0 || len(act.c.mapSubscribing) != 0 || tracked != 0 {
			vsched.Logf("note: closed client object still holds channels=%d mapSubscribing=%d keyed=%d (client-local, not checked)", len(act.c.channels), len(act.c.mapSubscribing), tracked)
		}
		if g := vGaugeSum(n.metrics.connectionsInflight); g != connGauge0 {
			fail("conn-gauge", "connections_inflight=%v, before A was created %v", g, connGauge0)
		}
		if g := vGaugeSum(n.metrics.subscriptionsInflight); g != subGauge0 {
			fail("sub-gauge", "subscriptions_inflight=%v, before A was created %v", g, subGauge0)
		}
		// user presence is documented to lapse by TTL
		vsched.Advance(int64(nlUserTTL) + 2*vSec)
		if ks := mapKeys(nlPU); len(ks) != 0 {
			fail("map-user-presence-left", "map user presence channel %s still holds %v after its KeyTTL", nlPU, ks)
		}
	}
}
