//go:build verif

package centrifuge

import (
	"fmt"
	"strings"

	"github.com/centrifugal/centrifuge/internal/zzverif/vsched"
	"github.com/centrifugal/protocol"
)

// cacheflight (C03, E1): a cache-recovery subscribe while another history read of the same channel
// is in flight and the node coalesces reads (Config.UseSingleFlight). The subscribe must still be
// answered from the NEWEST end of the history: recovered=true and exactly the newest publication
// the filters admit, whatever the overlapping read asked for.
//
// Channel "cf" holds three publications tagged a, b, a. ChooseFree picks the overlapping read
// (Node.History with limit in {-1, 1, 2}, forward or reverse) and the subscription (client recover
// flag / server-forced AutoCacheRecover; no filter / client filter t=a / server filter t=b - with a
// filter the cache read has no limit). Oracle: the subscribe reply equals the reply the same
// request gets alone (reference connection, before the concurrent phase) and the overlapping
// Node.History result equals its result alone.
func init() {
	vsched.Register(&vsched.Harness{
		Name: "cacheflight", Props: []string{"C03"}, Kind: "sched",
		Doc: "node with UseSingleFlight, channel with three tagged publications; thread A: Node.History(limit in {-1,1,2}, forward/reverse), thread B: a subscribe in cache recovery mode (client recover flag or AutoCacheRecover; no filter, client filter, server filter), all combinations by ChooseFree, preemption bound 1 (thorough 2); oracle: subscribe reply (recovered flag, publications) and history result equal the results of the same calls made alone; recovered is true and at most one publication, the newest one the filters admit, is delivered",
		Variants: func(tier string) []vsched.Variant {
			if tier == "thorough" {
				return []vsched.Variant{{Name: "overlap", Bound: 2, Shards: 8, BudgetS: 280}}
			}
			return []vsched.Variant{{Name: "overlap", Bound: 1, Shards: 4, BudgetS: 100}}
		},
		Sched: func(v vsched.Variant) func() {
			limits := []int{-1, 1, 2}
			return func() {
				pick := vsched.ChooseFree(len(limits) * 2 * 2 * 3)
				la := limits[pick%3]
				reverse := (pick/3)%2 == 1
				auto := (pick/6)%2 == 1
				filter := (pick / 12) % 3 // 0 none, 1 client t=a, 2 server t=b
				vsched.Quiet(true)
				n := vNewNode(func(c *Config) { c.UseSingleFlight = true })
				n.OnConnect(func(c *Client) {
					c.OnSubscribe(func(e SubscribeEvent, cb SubscribeCallback) {
						o := SubscribeOptions{EnableRecovery: true, RecoveryMode: RecoveryModeCache, AllowTagsFilter: true, AutoCacheRecover: auto}
						if filter == 2 {
							o.ServerTagsFilter = vhServerFilter()
						}
						cb(SubscribeReply{Options: o}, nil)
					})
				})
				if err := n.Run(); err != nil {
					panic(err)
				}
				for i, tag := range []string{"a", "b", "a"} {
					if _, err := n.Publish("cf", []byte(fmt.Sprintf(`{"i":%d}`, i+1)), WithHistory(16, 3600e9), WithTags(map[string]string{"t": tag})); err != nil {
						panic(err)
					}
				}
				nodeCall := func() string {
					r, err := n.History("cf", WithHistoryFilter(HistoryFilter{Limit: la, Reverse: reverse}))
					if err != nil {
						return "error " + err.Error()
					}
					return histflightDesc(len(r.Publications), func(i int) uint64 { return r.Publications[i].Offset }, r.Offset)
				}
				subCall := func(cl *vClient) string {
					req := &protocol.SubscribeRequest{Channel: "cf", Recover: !auto}
					if filter == 1 {
						req.Tf = vhClientFilter()
					}
					cl.cmd(&protocol.Command{Subscribe: req})
					vsched.WaitIdle()
					for _, f := range cl.t.frames {
						if f.Reply.Id > 1 && f.Reply.Error != nil {
							return fmt.Sprintf("error %d", f.Reply.Error.Code)
						}
						if s := f.Reply.Subscribe; s != nil {
							return fmt.Sprintf("recovered=%v was_recovering=%v ", s.Recovered, s.WasRecovering) + histflightDesc(len(s.Publications), func(i int) uint64 { return s.Publications[i].Offset }, s.Offset)
						}
					}
					return "no reply"
				}
				ref := vNewClient(n, vNewTransport(), &Credentials{UserID: "r"})
				ref.connect()
				cl := vNewClient(n, vNewTransport(), &Credentials{UserID: "u"})
				cl.connect()
				vsched.WaitIdle()
				wantA, wantB := nodeCall(), subCall(ref)
				newest := map[int]uint64{0: 3, 1: 3, 2: 2}[filter]
				if want := fmt.Sprintf("recovered=true was_recovering=true 1 pubs [ %d ]", newest); !strings.HasPrefix(wantB, want) {
					vsched.Failf("cacheflight-alone", "a cache-recovery subscribe made alone answered %q, expected %q", wantB, want)
				}
				vsched.Quiet(false)
				var gotA, gotB string
				done := make(chan struct{}, 2)
				go func() { gotA = nodeCall(); done <- struct{}{} }()
				go func() { gotB = subCall(cl); done <- struct{}{} }()
				<-done
				<-done
				vsched.WaitIdle()
				vsched.Quiet(true)
				vsched.Logf("history limit=%d reverse=%v | subscribe auto=%v filter=%d: node %s | subscribe %s", la, reverse, auto, filter, gotA, gotB)
				if gotA != wantA {
					vsched.Failf("cacheflight-history-result-differs", "Node.History(limit %d, reverse %v) overlapping a cache-recovery subscribe: got %s, alone %s", la, reverse, gotA, wantA)
				}
				if gotB != wantB {
					vsched.Failf("cacheflight-subscribe-result-differs", "cache-recovery subscribe (auto %v, filter %d) overlapping Node.History(limit %d, reverse %v): got %s, alone %s", auto, filter, la, reverse, gotB, wantB)
				}
				_ = cl.close()
				_ = ref.close()
				vsched.WaitIdle()
			}
		},
	})
}
