// Package vhelp holds harness helpers that must NOT be rewritten for the scheduler (they talk to
// unmodified libraries over real channels).
package vhelp

import (
	"github.com/prometheus/client_golang/prometheus"
	dto "github.com/prometheus/client_model/go"
)

// GaugeSum returns the sum of all gauge / counter values of a collector.
func GaugeSum(c prometheus.Collector) float64 {
	ch := make(chan prometheus.Metric, 4096)
	c.Collect(ch)
	close(ch)
	var sum float64
	for m := range ch {
		var d dto.Metric
		if err := m.Write(&d); err != nil {
			continue
		}
		if d.Gauge != nil {
			sum += d.Gauge.GetValue()
		}
		if d.Counter != nil {
			sum += d.Counter.GetValue()
		}
	}
	return sum
}

// NoopRegistry satisfies prometheus.Registerer and prometheus.Gatherer without doing anything:
// the Node's collectors work as usual but are not validated and indexed in a registry, which is
// the dominant cost of centrifuge.New in harnesses that create one Node per execution.
type NoopRegistry struct{}

func (NoopRegistry) Register(prometheus.Collector) error  { return nil }
func (NoopRegistry) MustRegister(...prometheus.Collector) {}
func (NoopRegistry) Unregister(prometheus.Collector) bool { return true }
func (NoopRegistry) Gather() ([]*dto.MetricFamily, error) { return nil, nil }
