// Package vatomic mirrors the parts of sync/atomic used by centrifuge; in SCHED mode every
// operation is a scheduling point.
package vatomic

import (
	"sync"
	"sync/atomic"
	"unsafe"

	"github.com/centrifugal/centrifuge/internal/zzverif/vsched"
)

func point(o *vsched.Obj) {
	if !vsched.Active() || vsched.Killed() {
		return
	}
	o.Fresh()
	vsched.Point(vsched.OpAtomic, nil)
	vsched.Touch(o, vsched.OpAtomic)
}

// objects for plain-word atomics (atomic.AddUint64(&x, 1)) keyed by address, per execution
var (
	addrMu   sync.Mutex
	addrObjs = map[unsafe.Pointer]*vsched.Obj{}
)

func init() {
	vsched.OnReset(func() { addrObjs = map[unsafe.Pointer]*vsched.Obj{} })
}

func addrPoint(p unsafe.Pointer) {
	if !vsched.Active() || vsched.Killed() {
		return
	}
	o := addrObjs[p]
	if o == nil {
		o = &vsched.Obj{}
		addrObjs[p] = o
	}
	point(o)
}

type Bool struct {
	v atomic.Bool
	o vsched.Obj
}

func (x *Bool) Load() bool       { point(&x.o); return x.v.Load() }
func (x *Bool) Store(v bool)     { point(&x.o); x.v.Store(v) }
func (x *Bool) Swap(v bool) bool { point(&x.o); return x.v.Swap(v) }
func (x *Bool) CompareAndSwap(o, n bool) bool {
	point(&x.o)
	return x.v.CompareAndSwap(o, n)
}

type Int32 struct {
	v atomic.Int32
	o vsched.Obj
}

func (x *Int32) Load() int32        { point(&x.o); return x.v.Load() }
func (x *Int32) Store(v int32)      { point(&x.o); x.v.Store(v) }
func (x *Int32) Swap(v int32) int32 { point(&x.o); return x.v.Swap(v) }
func (x *Int32) Add(d int32) int32  { point(&x.o); return x.v.Add(d) }
func (x *Int32) CompareAndSwap(o, n int32) bool {
	point(&x.o)
	return x.v.CompareAndSwap(o, n)
}

type Int64 struct {
	v atomic.Int64
	o vsched.Obj
}

func (x *Int64) Load() int64        { point(&x.o); return x.v.Load() }
func (x *Int64) Store(v int64)      { point(&x.o); x.v.Store(v) }
func (x *Int64) Swap(v int64) int64 { point(&x.o); return x.v.Swap(v) }
func (x *Int64) Add(d int64) int64  { point(&x.o); return x.v.Add(d) }
func (x *Int64) CompareAndSwap(o, n int64) bool {
	point(&x.o)
	return x.v.CompareAndSwap(o, n)
}

type Uint32 struct {
	v atomic.Uint32
	o vsched.Obj
}

func (x *Uint32) Load() uint32         { point(&x.o); return x.v.Load() }
func (x *Uint32) Store(v uint32)       { point(&x.o); x.v.Store(v) }
func (x *Uint32) Swap(v uint32) uint32 { point(&x.o); return x.v.Swap(v) }
func (x *Uint32) Add(d uint32) uint32  { point(&x.o); return x.v.Add(d) }
func (x *Uint32) CompareAndSwap(o, n uint32) bool {
	point(&x.o)
	return x.v.CompareAndSwap(o, n)
}

type Uint64 struct {
	v atomic.Uint64
	o vsched.Obj
}

func (x *Uint64) Load() uint64         { point(&x.o); return x.v.Load() }
func (x *Uint64) Store(v uint64)       { point(&x.o); x.v.Store(v) }
func (x *Uint64) Swap(v uint64) uint64 { point(&x.o); return x.v.Swap(v) }
func (x *Uint64) Add(d uint64) uint64  { point(&x.o); return x.v.Add(d) }
func (x *Uint64) CompareAndSwap(o, n uint64) bool {
	point(&x.o)
	return x.v.CompareAndSwap(o, n)
}

type Pointer[T any] struct {
	v atomic.Pointer[T]
	o vsched.Obj
}

func (x *Pointer[T]) Load() *T     { point(&x.o); return x.v.Load() }
func (x *Pointer[T]) Store(v *T)   { point(&x.o); x.v.Store(v) }
func (x *Pointer[T]) Swap(v *T) *T { point(&x.o); return x.v.Swap(v) }
func (x *Pointer[T]) CompareAndSwap(o, n *T) bool {
	point(&x.o)
	return x.v.CompareAndSwap(o, n)
}

type Value struct {
	v atomic.Value
	o vsched.Obj
}

func (x *Value) Load() any      { point(&x.o); return x.v.Load() }
func (x *Value) Store(v any)    { point(&x.o); x.v.Store(v) }
func (x *Value) Swap(v any) any { point(&x.o); return x.v.Swap(v) }
func (x *Value) CompareAndSwap(o, n any) bool {
	point(&x.o)
	return x.v.CompareAndSwap(o, n)
}

func AddInt32(p *int32, d int32) int32 { addrPoint(unsafe.Pointer(p)); return atomic.AddInt32(p, d) }
func AddInt64(p *int64, d int64) int64 { addrPoint(unsafe.Pointer(p)); return atomic.AddInt64(p, d) }
func AddUint32(p *uint32, d uint32) uint32 {
	addrPoint(unsafe.Pointer(p))
	return atomic.AddUint32(p, d)
}
func AddUint64(p *uint64, d uint64) uint64 {
	addrPoint(unsafe.Pointer(p))
	return atomic.AddUint64(p, d)
}
func LoadInt32(p *int32) int32        { addrPoint(unsafe.Pointer(p)); return atomic.LoadInt32(p) }
func LoadInt64(p *int64) int64        { addrPoint(unsafe.Pointer(p)); return atomic.LoadInt64(p) }
func LoadUint32(p *uint32) uint32     { addrPoint(unsafe.Pointer(p)); return atomic.LoadUint32(p) }
func LoadUint64(p *uint64) uint64     { addrPoint(unsafe.Pointer(p)); return atomic.LoadUint64(p) }
func StoreInt32(p *int32, v int32)    { addrPoint(unsafe.Pointer(p)); atomic.StoreInt32(p, v) }
func StoreInt64(p *int64, v int64)    { addrPoint(unsafe.Pointer(p)); atomic.StoreInt64(p, v) }
func StoreUint32(p *uint32, v uint32) { addrPoint(unsafe.Pointer(p)); atomic.StoreUint32(p, v) }
func StoreUint64(p *uint64, v uint64) { addrPoint(unsafe.Pointer(p)); atomic.StoreUint64(p, v) }
func CompareAndSwapInt32(p *int32, o, n int32) bool {
	addrPoint(unsafe.Pointer(p))
	return atomic.CompareAndSwapInt32(p, o, n)
}
func CompareAndSwapInt64(p *int64, o, n int64) bool {
	addrPoint(unsafe.Pointer(p))
	return atomic.CompareAndSwapInt64(p, o, n)
}
func CompareAndSwapUint32(p *uint32, o, n uint32) bool {
	addrPoint(unsafe.Pointer(p))
	return atomic.CompareAndSwapUint32(p, o, n)
}
func CompareAndSwapUint64(p *uint64, o, n uint64) bool {
	addrPoint(unsafe.Pointer(p))
	return atomic.CompareAndSwapUint64(p, o, n)
}
func SwapInt32(p *int32, v int32) int32 { addrPoint(unsafe.Pointer(p)); return atomic.SwapInt32(p, v) }
func SwapInt64(p *int64, v int64) int64 { addrPoint(unsafe.Pointer(p)); return atomic.SwapInt64(p, v) }
