// Package vsync mirrors the parts of package sync used by centrifuge. In SCHED mode every
// acquiring operation is a scheduling point of vsched; otherwise the real primitive is used.
package vsync

import (
	"fmt"
	"sync"

	"github.com/centrifugal/centrifuge/internal/zzverif/vsched"
)

// Locker is sync.Locker.
type Locker = sync.Locker

// Mutex mirrors sync.Mutex.
type Mutex struct {
	real   sync.Mutex
	o      vsched.Obj
	locked bool
}

func (m *Mutex) Lock() {
	if !vsched.Active() {
		m.real.Lock()
		return
	}
	if vsched.Killed() {
		return
	}
	if m.o.Fresh() {
		m.locked = false
	}
	vsched.Point(vsched.OpLock, func() bool { return !m.locked })
	m.locked = true
	vsched.Touch(&m.o, vsched.OpLock)
}

func (m *Mutex) TryLock() bool {
	if !vsched.Active() {
		return m.real.TryLock()
	}
	if vsched.Killed() {
		return true
	}
	if m.o.Fresh() {
		m.locked = false
	}
	vsched.Point(vsched.OpLock, nil)
	vsched.Touch(&m.o, vsched.OpLock)
	if m.locked {
		return false
	}
	m.locked = true
	return true
}

func (m *Mutex) Unlock() {
	if !vsched.Active() {
		m.real.Unlock()
		return
	}
	if vsched.Killed() {
		return
	}
	if m.o.Fresh() || !m.locked {
		panic("sync: unlock of unlocked mutex")
	}
	m.locked = false
}

// RWMutex mirrors sync.RWMutex (without writer preference: a reader may enter while a writer
// waits, which only adds schedules).
type RWMutex struct {
	real    sync.RWMutex
	o       vsched.Obj
	writer  bool
	readers int
}

func (m *RWMutex) fresh() {
	if m.o.Fresh() {
		m.writer = false
		m.readers = 0
	}
}

func (m *RWMutex) Lock() {
	if !vsched.Active() {
		m.real.Lock()
		return
	}
	if vsched.Killed() {
		return
	}
	m.fresh()
	vsched.Point(vsched.OpLock, func() bool { return !m.writer && m.readers == 0 })
	m.writer = true
	vsched.Touch(&m.o, vsched.OpLock)
}

func (m *RWMutex) TryLock() bool {
	if !vsched.Active() {
		return m.real.TryLock()
	}
	if vsched.Killed() {
		return true
	}
	m.fresh()
	vsched.Point(vsched.OpLock, nil)
	vsched.Touch(&m.o, vsched.OpLock)
	if m.writer || m.readers > 0 {
		return false
	}
	m.writer = true
	return true
}

func (m *RWMutex) Unlock() {
	if !vsched.Active() {
		m.real.Unlock()
		return
	}
	if vsched.Killed() {
		return
	}
	m.fresh()
	if !m.writer {
		panic("sync: Unlock of unlocked RWMutex")
	}
	m.writer = false
}

func (m *RWMutex) RLock() {
	if !vsched.Active() {
		m.real.RLock()
		return
	}
	if vsched.Killed() {
		return
	}
	m.fresh()
	vsched.Point(vsched.OpRLock, func() bool { return !m.writer })
	m.readers++
	vsched.Touch(&m.o, vsched.OpRLock)
}

func (m *RWMutex) TryRLock() bool {
	if !vsched.Active() {
		return m.real.TryRLock()
	}
	if vsched.Killed() {
		return true
	}
	m.fresh()
	vsched.Point(vsched.OpRLock, nil)
	vsched.Touch(&m.o, vsched.OpRLock)
	if m.writer {
		return false
	}
	m.readers++
	return true
}

func (m *RWMutex) RUnlock() {
	if !vsched.Active() {
		m.real.RUnlock()
		return
	}
	if vsched.Killed() {
		return
	}
	m.fresh()
	if m.readers <= 0 {
		panic("sync: RUnlock of unlocked RWMutex")
	}
	m.readers--
}

type rlocker RWMutex

func (r *rlocker) Lock()   { (*RWMutex)(r).RLock() }
func (r *rlocker) Unlock() { (*RWMutex)(r).RUnlock() }

// RLocker mirrors (*sync.RWMutex).RLocker.
func (m *RWMutex) RLocker() Locker { return (*rlocker)(m) }

// WaitGroup mirrors sync.WaitGroup.
type WaitGroup struct {
	real sync.WaitGroup
	o    vsched.Obj
	n    int
}

func (w *WaitGroup) Add(d int) {
	if !vsched.Active() {
		w.real.Add(d)
		return
	}
	if vsched.Killed() {
		return
	}
	if w.o.Fresh() {
		w.n = 0
	}
	vsched.Point(vsched.OpAtomic, nil)
	vsched.Touch(&w.o, vsched.OpAtomic)
	w.n += d
	if w.n < 0 {
		panic("sync: negative WaitGroup counter")
	}
}

func (w *WaitGroup) Done() { w.Add(-1) }

func (w *WaitGroup) Wait() {
	if !vsched.Active() {
		w.real.Wait()
		return
	}
	if vsched.Killed() {
		return
	}
	if w.o.Fresh() {
		w.n = 0
	}
	vsched.Point(vsched.OpWGWait, func() bool { return w.n == 0 })
	vsched.Touch(&w.o, vsched.OpWGWait)
}

// Go mirrors (*sync.WaitGroup).Go.
func (w *WaitGroup) Go(f func()) {
	w.Add(1)
	vsched.Go(func() {
		defer w.Done()
		f()
	})
}

// Once mirrors sync.Once.
type Once struct {
	real  sync.Once
	o     vsched.Obj
	state int // 0 new, 1 running, 2 done
}

func (c *Once) Do(f func()) {
	if !vsched.Active() {
		c.real.Do(f)
		return
	}
	if vsched.Killed() {
		return
	}
	if c.o.Fresh() {
		c.state = 0
	}
	vsched.Point(vsched.OpOnce, func() bool { return c.state != 1 })
	vsched.Touch(&c.o, vsched.OpOnce)
	if c.state == 2 {
		return
	}
	c.state = 1
	defer func() { c.state = 2 }()
	f()
}

// OnceFunc mirrors sync.OnceFunc.
func OnceFunc(f func()) func() {
	var once Once
	return func() { once.Do(f) }
}

// OnceValue mirrors sync.OnceValue.
func OnceValue[T any](f func() T) func() T {
	var once Once
	var v T
	return func() T {
		once.Do(func() { v = f() })
		return v
	}
}

// Cond mirrors sync.Cond.
type Cond struct {
	L       Locker
	real    *sync.Cond
	o       vsched.Obj
	waiters []*condWaiter
}

type condWaiter struct{ woken bool }

// NewCond mirrors sync.NewCond.
func NewCond(l Locker) *Cond { return &Cond{L: l, real: sync.NewCond(l)} }

func (c *Cond) Wait() {
	if !vsched.Active() {
		c.real.Wait()
		return
	}
	if vsched.Killed() {
		return
	}
	if c.o.Fresh() {
		c.waiters = nil
	}
	w := &condWaiter{}
	c.waiters = append(c.waiters, w)
	c.L.Unlock()
	vsched.Point(vsched.OpCond, func() bool { return w.woken })
	vsched.Touch(&c.o, vsched.OpCond)
	c.L.Lock()
}

func (c *Cond) Signal() {
	if !vsched.Active() {
		c.real.Signal()
		return
	}
	if vsched.Killed() {
		return
	}
	if c.o.Fresh() {
		c.waiters = nil
	}
	vsched.Point(vsched.OpCond, nil)
	vsched.Touch(&c.o, vsched.OpCond)
	if len(c.waiters) > 0 {
		c.waiters[0].woken = true
		c.waiters = c.waiters[1:]
	}
}

func (c *Cond) Broadcast() {
	if !vsched.Active() {
		c.real.Broadcast()
		return
	}
	if vsched.Killed() {
		return
	}
	if c.o.Fresh() {
		c.waiters = nil
	}
	vsched.Point(vsched.OpCond, nil)
	vsched.Touch(&c.o, vsched.OpCond)
	for _, w := range c.waiters {
		w.woken = true
	}
	c.waiters = nil
}

// Pool mirrors sync.Pool. In SCHED mode it is a deterministic LIFO that starts empty in every
// execution (sync.Pool may drop anything at any time, so this is one of its behaviours).
type Pool struct {
	New   func() any
	real  sync.Pool
	o     vsched.Obj
	items []any
	once  sync.Once
}

func (p *Pool) Get() any {
	if !vsched.Active() {
		p.once.Do(func() { p.real.New = p.New })
		if v := p.real.Get(); v != nil {
			return v
		}
		if p.New != nil {
			return p.New()
		}
		return nil
	}
	if p.o.Fresh() {
		p.items = nil
	}
	if n := len(p.items); n > 0 {
		v := p.items[n-1]
		p.items = p.items[:n-1]
		return v
	}
	if p.New != nil {
		return p.New()
	}
	return nil
}

func (p *Pool) Put(v any) {
	if !vsched.Active() {
		p.real.Put(v)
		return
	}
	if vsched.Killed() {
		return
	}
	if p.o.Fresh() {
		p.items = nil
	}
	p.items = append(p.items, v)
}

// Map mirrors sync.Map. In SCHED mode it is a plain map with insertion-ordered Range and a
// scheduling point per operation.
type Map struct {
	real sync.Map
	o    vsched.Obj
	m    map[any]any
	keys []any
}

func (m *Map) enter() bool {
	if !vsched.Active() {
		return false
	}
	if m.o.Fresh() || m.m == nil {
		m.m = map[any]any{}
		m.keys = nil
	}
	if !vsched.Killed() {
		vsched.Point(vsched.OpMap, nil)
		vsched.Touch(&m.o, vsched.OpMap)
	}
	return true
}

func (m *Map) del(k any) {
	delete(m.m, k)
	for i, x := range m.keys {
		if x == k {
			m.keys = append(m.keys[:i], m.keys[i+1:]...)
			return
		}
	}
}

func (m *Map) put(k, v any) {
	if _, ok := m.m[k]; !ok {
		m.keys = append(m.keys, k)
	}
	m.m[k] = v
}

func (m *Map) Load(k any) (any, bool) {
	if !m.enter() {
		return m.real.Load(k)
	}
	v, ok := m.m[k]
	if vsched.Tracing() {
		vsched.TraceNote(fmt.Sprintf("Load %+v -> %v", k, ok))
	}
	return v, ok
}

func (m *Map) Store(k, v any) {
	if !m.enter() {
		m.real.Store(k, v)
		return
	}
	m.put(k, v)
}

func (m *Map) LoadOrStore(k, v any) (any, bool) {
	if !m.enter() {
		return m.real.LoadOrStore(k, v)
	}
	if old, ok := m.m[k]; ok {
		return old, true
	}
	m.put(k, v)
	return v, false
}

func (m *Map) LoadAndDelete(k any) (any, bool) {
	if !m.enter() {
		return m.real.LoadAndDelete(k)
	}
	v, ok := m.m[k]
	if ok {
		m.del(k)
	}
	return v, ok
}

func (m *Map) Delete(k any) {
	if !m.enter() {
		m.real.Delete(k)
		return
	}
	m.del(k)
}

func (m *Map) Swap(k, v any) (any, bool) {
	if !m.enter() {
		return m.real.Swap(k, v)
	}
	old, ok := m.m[k]
	m.put(k, v)
	return old, ok
}

func (m *Map) CompareAndSwap(k, old, nw any) bool {
	if !m.enter() {
		return m.real.CompareAndSwap(k, old, nw)
	}
	if cur, ok := m.m[k]; ok && cur == old {
		m.m[k] = nw
		return true
	}
	return false
}

func (m *Map) CompareAndDelete(k, old any) bool {
	if !m.enter() {
		return m.real.CompareAndDelete(k, old)
	}
	if cur, ok := m.m[k]; ok && cur == old {
		m.del(k)
		return true
	}
	return false
}

func (m *Map) Range(f func(k, v any) bool) {
	if !m.enter() {
		m.real.Range(f)
		return
	}
	keys := append([]any(nil), m.keys...)
	for _, k := range keys {
		v, ok := m.m[k]
		if !ok {
			continue
		}
		if !f(k, v) {
			return
		}
	}
}

func (m *Map) Clear() {
	if !m.enter() {
		m.real.Clear()
		return
	}
	m.m = map[any]any{}
	m.keys = nil
}
