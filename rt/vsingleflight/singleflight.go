// Package vsingleflight mirrors golang.org/x/sync/singleflight (Do / DoChan / Forget) on top
// of the vsync shims, so that duplicate-call suppression takes part in schedule exploration.
// The algorithm is the original's: the first caller for a key runs fn, later callers for the
// same key wait for it and share its result.
package vsingleflight

import (
	"github.com/centrifugal/centrifuge/internal/zzverif/vsched"
	sync "github.com/centrifugal/centrifuge/internal/zzverif/vsync"
)

type call struct {
	wg    sync.WaitGroup
	val   any
	err   error
	dups  int
	chans []chan<- Result
}

// Group mirrors singleflight.Group.
type Group struct {
	o  vsched.Obj
	mu sync.Mutex
	m  map[string]*call
}

// Result mirrors singleflight.Result.
type Result struct {
	Val    any
	Err    error
	Shared bool
}

func (g *Group) fresh() {
	if vsched.Active() && !vsched.Killed() && g.o.Fresh() {
		g.m = nil // calls left behind by an earlier execution
	}
}

// Do mirrors (*singleflight.Group).Do.
func (g *Group) Do(key string, fn func() (any, error)) (v any, err error, shared bool) {
	g.fresh()
	g.mu.Lock()
	if g.m == nil {
		g.m = make(map[string]*call)
	}
	if c, ok := g.m[key]; ok {
		c.dups++
		g.mu.Unlock()
		c.wg.Wait()
		return c.val, c.err, true
	}
	c := new(call)
	c.wg.Add(1)
	g.m[key] = c
	g.mu.Unlock()

	g.doCall(c, key, fn)
	return c.val, c.err, c.dups > 0
}

// DoChan mirrors (*singleflight.Group).DoChan.
func (g *Group) DoChan(key string, fn func() (any, error)) <-chan Result {
	ch := make(chan Result, 1)
	g.fresh()
	g.mu.Lock()
	if g.m == nil {
		g.m = make(map[string]*call)
	}
	if c, ok := g.m[key]; ok {
		c.dups++
		c.chans = append(c.chans, ch)
		g.mu.Unlock()
		return ch
	}
	c := &call{chans: []chan<- Result{ch}}
	c.wg.Add(1)
	g.m[key] = c
	g.mu.Unlock()
	vsched.Go(func() { g.doCall(c, key, fn) })
	return ch
}

func (g *Group) doCall(c *call, key string, fn func() (any, error)) {
	defer func() {
		g.mu.Lock()
		defer g.mu.Unlock()
		c.wg.Done()
		if g.m[key] == c {
			delete(g.m, key)
		}
		for _, ch := range c.chans {
			vsched.SendTo(ch).V(Result{c.val, c.err, c.dups > 0})
		}
	}()
	c.val, c.err = fn()
}

// Forget mirrors (*singleflight.Group).Forget.
func (g *Group) Forget(key string) {
	g.fresh()
	g.mu.Lock()
	delete(g.m, key)
	g.mu.Unlock()
}
