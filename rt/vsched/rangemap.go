package vsched

import (
	"cmp"
	"iter"
	"slices"
)

// RangeMap iterates a map in sorted key order (Go's map order is random, which would make a
// choice sequence irreproducible). Entries deleted before they are reached are skipped and
// entries added during the iteration are not visited, both allowed by the language.
func RangeMap[M ~map[K]V, K cmp.Ordered, V any](m M) iter.Seq2[K, V] {
	return func(yield func(K, V) bool) {
		if len(m) == 0 {
			return
		}
		keys := make([]K, 0, len(m))
		for k := range m {
			keys = append(keys, k)
		}
		slices.Sort(keys)
		for _, k := range keys {
			v, ok := m[k]
			if !ok {
				continue
			}
			if !yield(k, v) {
				return
			}
		}
	}
}
