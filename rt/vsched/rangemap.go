package vsched

import (
	"cmp"
	"fmt"
	"iter"
	"slices"
)

// RangeMap iterates a map in sorted key order (Go's map order is random, which would make a
// choice sequence irreproducible). Entries deleted before they are reached are skipped and
// entries added during the iteration are not visited, both allowed by the language.
func RangeMap[M ~map[K]V, K cmp.Ordered, V any](m M) iter.Seq2[K, V] {
	return func(yield func(K, V) bool) {
		if len(m) == 0 {
			return
		}
		keys := make([]K, 0, len(m))
		for k := range m {
			keys = append(keys, k)
		}
		slices.Sort(keys)
		for _, k := range keys {
			v, ok := m[k]
			if !ok {
				continue
			}
			if !yield(k, v) {
				return
			}
		}
	}
}

// RangeMapFmt iterates a map whose keys are plain value structs (no pointers) in the order of
// their printed representation, for the same reason as RangeMap.
func RangeMapFmt[M ~map[K]V, K comparable, V any](m M) iter.Seq2[K, V] {
	return func(yield func(K, V) bool) {
		if len(m) == 0 {
			return
		}
		type kv struct {
			s string
			k K
		}
		keys := make([]kv, 0, len(m))
		for k := range m {
			keys = append(keys, kv{fmt.Sprintf("%#v", k), k})
		}
		slices.SortFunc(keys, func(a, b kv) int { return cmp.Compare(a.s, b.s) })
		for _, e := range keys {
			v, ok := m[e.k]
			if !ok {
				continue
			}
			if !yield(e.k, v) {
				return
			}
		}
	}
}
