package vsched

import (
	"fmt"
	"reflect"
	"runtime"
	"unsafe"
)

// chanState is the scheduler-owned state of one Go channel. The real channel is only an
// identity (and is really closed on Close so that code outside the rewritten packages sees it).
type chanState struct {
	Obj
	cap    int
	buf    []any
	closed bool
	waitR  []*thread // threads parked with a receive case on this channel
	waitS  []*thread // threads parked with a send case on this channel
	keep   any
}

type selCase struct {
	ch   *chanState // nil: nil channel, never ready
	send bool
	val  any
}

type chanWait struct {
	cases      []selCase
	hasDefault bool
	fired      int // -2: not fired by a partner; otherwise index of the completed case
	val        any
	ok         bool
}

func chanPtr[T any](ch <-chan T) uintptr { return *(*uintptr)(unsafe.Pointer(&ch)) }

func (r *runtimeState) chanOf(p uintptr, capf func() int, keep any) *chanState {
	if p == 0 {
		return nil
	}
	c := r.chans[p]
	if c == nil {
		c = &chanState{cap: capf(), keep: keep}
		c.Fresh()
		r.chans[p] = c
	}
	return c
}

func stateOfR[T any](ch <-chan T) *chanState {
	return rt.chanOf(chanPtr(ch), func() int { return cap(ch) }, ch)
}

func stateOfS[T any](ch chan<- T) *chanState {
	p := *(*uintptr)(unsafe.Pointer(&ch))
	return rt.chanOf(p, func() int { return cap(ch) }, ch)
}

func (r *runtimeState) caseReady(t *thread, c *selCase) bool {
	ch := c.ch
	if ch == nil {
		return false
	}
	if c.send {
		if ch.closed || len(ch.buf) < ch.cap {
			return true
		}
		if ch.cap == 0 {
			for _, u := range ch.waitR {
				if u != t && u.cw != nil && u.cw.fired == -2 {
					return true
				}
			}
		}
		return false
	}
	if len(ch.buf) > 0 || ch.closed {
		return true
	}
	if ch.cap == 0 {
		for _, u := range ch.waitS {
			if u != t && u.cw != nil && u.cw.fired == -2 {
				return true
			}
		}
	}
	return false
}

func (r *runtimeState) chanWaitReady(t *thread) bool {
	w := t.cw
	if w.fired != -2 || w.hasDefault {
		return true
	}
	for i := range w.cases {
		if r.caseReady(t, &w.cases[i]) {
			return true
		}
	}
	return false
}

func removeThread(l []*thread, t *thread) []*thread {
	for i, u := range l {
		if u == t {
			return append(l[:i], l[i+1:]...)
		}
	}
	return l
}

// chanOp parks the current thread on the given cases and performs the chosen one.
// It returns the index of the completed case (-1: default) and, for receives, value and ok.
func (r *runtimeState) chanOp(cases []selCase, hasDefault bool) (int, any, bool) {
	t := r.cur
	if t.killed {
		runtime.Goexit()
	}
	w := &chanWait{cases: cases, hasDefault: hasDefault, fired: -2}
	t.cw = w
	t.kind = OpChan
	t.hash = mix(t.hash, uint64(len(cases))+0x200)
	if r.trace {
		r.x.Trace = append(r.x.Trace, fmt.Sprintf("t%d(%s):chan/%d %s", t.id, t.name, len(cases), callerInfo()))
	}
	for i := range cases {
		c := &cases[i]
		if c.ch == nil {
			continue
		}
		if c.send {
			c.ch.waitS = append(c.ch.waitS, t)
		} else {
			c.ch.waitR = append(c.ch.waitR, t)
		}
	}
	r.reschedule(t, false)
	// chosen: complete the operation
	defer func() {
		for i := range cases {
			c := &cases[i]
			if c.ch == nil {
				continue
			}
			if c.send {
				c.ch.waitS = removeThread(c.ch.waitS, t)
			} else {
				c.ch.waitR = removeThread(c.ch.waitR, t)
			}
		}
		t.cw = nil
	}()
	if w.fired != -2 {
		c := &cases[w.fired]
		t.hash = mix(mix(t.hash, c.ch.hash), uint64(w.fired)+0xc0)
		return w.fired, w.val, w.ok
	}
	var ready []int
	for i := range cases {
		if r.caseReady(t, &cases[i]) {
			ready = append(ready, i)
		}
	}
	if len(ready) == 0 {
		if hasDefault {
			t.hash = mix(t.hash, 0xdef)
			return -1, nil, false
		}
		panic("vsched: thread resumed at channel operation with no ready case")
	}
	idx := ready[0]
	if len(ready) > 1 {
		cost := make([]uint8, len(ready))
		var sig uint32 = 17
		for i := range ready {
			if i > 0 {
				cost[i] = 1
			}
			sig = sig*31 + uint32(ready[i])
		}
		idx = ready[r.choose('c', len(ready), cost, sig)]
	}
	c := &cases[idx]
	ch := c.ch
	Touch(&ch.Obj, OpChan)
	t.hash = mix(t.hash, uint64(idx)+0xc0)
	if c.send {
		if ch.closed {
			panic("send on closed channel")
		}
		if len(ch.buf) < ch.cap {
			ch.buf = append(ch.buf, c.val)
			return idx, nil, false
		}
		// rendezvous with the lowest-id parked receiver
		u := r.partner(ch.waitR, t)
		for j := range u.cw.cases {
			uc := &u.cw.cases[j]
			if uc.ch == ch && !uc.send {
				u.cw.fired = j
				u.cw.val = c.val
				u.cw.ok = true
				break
			}
		}
		return idx, nil, false
	}
	if len(ch.buf) > 0 {
		v := ch.buf[0]
		ch.buf = ch.buf[1:]
		return idx, v, true
	}
	if ch.closed {
		return idx, nil, false
	}
	u := r.partner(ch.waitS, t)
	for j := range u.cw.cases {
		uc := &u.cw.cases[j]
		if uc.ch == ch && uc.send {
			u.cw.fired = j
			return idx, uc.val, true
		}
	}
	panic("vsched: no partner case")
}

func (r *runtimeState) partner(l []*thread, t *thread) *thread {
	var best *thread
	for _, u := range l {
		if u != t && u.cw != nil && u.cw.fired == -2 && (best == nil || u.id < best.id) {
			best = u
		}
	}
	if best == nil {
		panic("vsched: rendezvous without partner")
	}
	return best
}

func unbox[T any](v any) T {
	if v == nil {
		var z T
		return z
	}
	return v.(T)
}

// Recv is `<-ch`.
func Recv[T any](ch <-chan T) T {
	if !Active() {
		return <-ch
	}
	_, v, _ := rt.chanOp([]selCase{{ch: stateOfR(ch)}}, false)
	return unbox[T](v)
}

// Recv2 is `v, ok := <-ch`.
func Recv2[T any](ch <-chan T) (T, bool) {
	if !Active() {
		v, ok := <-ch
		return v, ok
	}
	_, v, ok := rt.chanOp([]selCase{{ch: stateOfR(ch)}}, false)
	return unbox[T](v), ok
}

// SendB is the first half of `ch <- v` (the value is bound with V so that ordinary
// assignability applies to it instead of type inference).
type SendB[T any] struct{ ch chan<- T }

// SendTo starts a send statement.
func SendTo[T any](ch chan<- T) SendB[T] { return SendB[T]{ch} }

// V completes `ch <- v`.
func (s SendB[T]) V(v T) {
	if !Active() {
		s.ch <- v
		return
	}
	rt.chanOp([]selCase{{ch: stateOfS(s.ch), send: true, val: v}}, false)
}

// Close is close(ch).
func Close[T any](ch chan<- T) {
	if !Active() {
		close(ch)
		return
	}
	if Killed() {
		return
	}
	c := stateOfS(ch)
	if c == nil {
		panic("close of nil channel")
	}
	Point(OpChan, nil)
	if c.closed {
		panic("close of closed channel")
	}
	Touch(&c.Obj, OpChan)
	c.closed = true
	func() {
		defer func() { _ = recover() }()
		close(ch)
	}()
}

// Len is len(ch).
func Len[T any](ch <-chan T) int {
	if !Active() {
		return len(ch)
	}
	c := stateOfR(ch)
	if c == nil {
		return 0
	}
	Point(OpChan, nil)
	Touch(&c.Obj, OpChan)
	return len(c.buf)
}

// Cap is cap(ch).
func Cap[T any](ch <-chan T) int { return cap(ch) }

// SelCase is one case of a rewritten select statement.
type SelCase interface {
	sel() selCase
	set(v any, ok bool)
	real() reflect.SelectCase
}

// RecvC is a receive case.
type RecvC[T any] struct {
	ch <-chan T
	v  T
	ok bool
}

// RecvCase builds a receive case.
func RecvCase[T any](ch <-chan T) *RecvC[T] { return &RecvC[T]{ch: ch} }

func (c *RecvC[T]) sel() selCase {
	return selCase{ch: stateOfR(c.ch)}
}
func (c *RecvC[T]) set(v any, ok bool) { c.v, c.ok = unbox[T](v), ok }
func (c *RecvC[T]) real() reflect.SelectCase {
	if c.ch == nil {
		return reflect.SelectCase{Dir: reflect.SelectRecv}
	}
	return reflect.SelectCase{Dir: reflect.SelectRecv, Chan: reflect.ValueOf(c.ch)}
}

// Got returns the received value.
func (c *RecvC[T]) Got() T { return c.v }

// Got2 returns the received value and the ok flag.
func (c *RecvC[T]) Got2() (T, bool) { return c.v, c.ok }

// SendC is a send case.
type SendC[T any] struct {
	ch chan<- T
	v  T
}

// SendCaseB is the first half of a send case.
type SendCaseB[T any] struct{ ch chan<- T }

// SendCase starts a send case; bind the value with V.
func SendCase[T any](ch chan<- T) SendCaseB[T] { return SendCaseB[T]{ch} }

// V binds the value of a send case.
func (b SendCaseB[T]) V(v T) *SendC[T] { return &SendC[T]{ch: b.ch, v: v} }

func (c *SendC[T]) sel() selCase       { return selCase{ch: stateOfS(c.ch), send: true, val: c.v} }
func (c *SendC[T]) set(v any, ok bool) {}
func (c *SendC[T]) real() reflect.SelectCase {
	if c.ch == nil {
		return reflect.SelectCase{Dir: reflect.SelectSend}
	}
	return reflect.SelectCase{Dir: reflect.SelectSend, Chan: reflect.ValueOf(c.ch), Send: reflect.ValueOf(&c.v).Elem()}
}

// Select executes a rewritten select statement and returns the index of the chosen case
// (-1 for default).
func Select(hasDefault bool, cs ...SelCase) int {
	if !Active() {
		rc := make([]reflect.SelectCase, 0, len(cs)+1)
		for _, c := range cs {
			rc = append(rc, c.real())
		}
		if hasDefault {
			rc = append(rc, reflect.SelectCase{Dir: reflect.SelectDefault})
		}
		i, v, ok := reflect.Select(rc)
		if hasDefault && i == len(cs) {
			return -1
		}
		if rc[i].Dir == reflect.SelectRecv {
			if ok {
				cs[i].set(v.Interface(), true)
			} else {
				cs[i].set(nil, false)
			}
		}
		return i
	}
	if len(cs) == 0 && !hasDefault {
		BlockForever()
	}
	cases := make([]selCase, len(cs))
	for i, c := range cs {
		cases[i] = c.sel()
	}
	i, v, ok := rt.chanOp(cases, hasDefault)
	if i >= 0 && !cases[i].send {
		cs[i].set(v, ok)
	}
	return i
}

// BlockForever is `select {}`.
func BlockForever() {
	if !Active() {
		select {}
	}
	Point(OpOther, func() bool { return false })
}
