package vsched

import (
	"sort"
	"time"
)

// Timer is a virtual-clock timer owned by the scheduler.
type Timer struct {
	when   int64
	seq    uint64
	hid    uint64
	active bool
	period int64
	fn     func()      // run in a new managed thread when the timer fires (AfterFunc)
	inline func(int64) // run inside the clock step (must not block): channel timers, sleeps
}

// Now returns the virtual time in nanoseconds since BaseUnixNano.
func Now() int64 { return rt.now }

// NewTimerAt registers a timer. Exactly one of fn / inline is set.
func NewTimerAt(d int64, period int64, fn func(), inline func(int64)) *Timer {
	r := rt
	if d < 0 {
		d = 0
	}
	t := &Timer{fn: fn, inline: inline, period: period}
	cur := r.cur
	cur.objCtr++
	t.hid = mix(mix(uint64(cur.id)+1, cur.objCtr), 0x7131)
	cur.hash = mix(cur.hash, t.hid)
	r.addTimer(t, r.now+d)
	return t
}

func (r *runtimeState) addTimer(t *Timer, when int64) {
	r.timerSeq++
	t.seq = r.timerSeq
	t.when = when
	t.active = true
	i := sort.Search(len(r.timers), func(i int) bool {
		x := r.timers[i]
		return x.when > when
	})
	r.timers = append(r.timers, nil)
	copy(r.timers[i+1:], r.timers[i:])
	r.timers[i] = t
}

func (r *runtimeState) delTimer(t *Timer) bool {
	if !t.active {
		return false
	}
	for i, x := range r.timers {
		if x == t {
			r.timers = append(r.timers[:i], r.timers[i+1:]...)
			break
		}
	}
	t.active = false
	return true
}

// StopTimer deactivates t; reports whether it was active.
func StopTimer(t *Timer) bool {
	rt.cur.hash = mix(rt.cur.hash, t.hid^0x51)
	return rt.delTimer(t)
}

// ResetTimer re-arms t to fire after d; reports whether it had been active.
func ResetTimer(t *Timer, d int64) bool {
	r := rt
	if d < 0 {
		d = 0
	}
	was := r.delTimer(t)
	r.cur.hash = mix(r.cur.hash, t.hid^0x52)
	r.addTimer(t, r.now+d)
	return was
}

func (r *runtimeState) fireNextTimer() {
	t := r.timers[0]
	r.timers = r.timers[1:]
	t.active = false
	if t.when > r.now {
		r.now = t.when
	}
	if t.period > 0 {
		r.addTimer(t, r.now+t.period)
	}
	if t.inline != nil {
		t.inline(r.now)
		return
	}
	u := r.newThread("timer", t.fn)
	u.hash = mix(t.hid, uint64(r.now))
}

// SetHorizon lets timers with a deadline up to now+d fire.
func SetHorizon(d int64) {
	if !Active() {
		return
	}
	rt.horizon = rt.now + d
	rt.cur.hash = mix(rt.cur.hash, uint64(rt.horizon))
}

// Advance lets virtual time run for d: every timer due in the window fires (interleaved with
// the threads they wake), the system settles, and the clock ends exactly at now+d.
func Advance(d int64) {
	if !Active() {
		if RaceMode {
			if d > int64(10*time.Millisecond) {
				d = int64(10 * time.Millisecond)
			}
			time.Sleep(time.Duration(d))
		}
		return
	}
	r := rt
	target := r.now + d
	r.horizon = target
	r.cur.hash = mix(r.cur.hash, uint64(target))
	WaitIdle()
	if r.now < target {
		r.now = target
	}
	r.horizon = r.now
}

// Sleep blocks the calling thread for d of virtual time.
func Sleep(d int64) {
	if d <= 0 {
		Yield()
		return
	}
	woke := false
	NewTimerAt(d, 0, nil, func(int64) { woke = true })
	Point(OpSleep, func() bool { return woke })
}

// InlineSend returns a timer action that does a non-blocking send of conv(now) on c, the way
// the runtime feeds Timer.C / Ticker.C.
func InlineSend[T any](c chan T, conv func(int64) T) func(int64) {
	return func(now int64) {
		cs := stateOfS[T](c)
		if cs.closed || len(cs.buf) < cs.cap {
			if !cs.closed {
				cs.buf = append(cs.buf, conv(now))
				cs.hash = mix(cs.hash, uint64(now)+0x71)
			}
			return
		}
		if cs.cap == 0 {
			for _, u := range cs.waitR {
				if u.cw != nil && u.cw.fired == -2 {
					for j := range u.cw.cases {
						uc := &u.cw.cases[j]
						if uc.ch == cs && !uc.send {
							u.cw.fired = j
							u.cw.val = conv(now)
							u.cw.ok = true
							return
						}
					}
				}
			}
		}
	}
}

// ResetPeriodic re-arms a periodic timer with a new period.
func ResetPeriodic(t *Timer, d int64) {
	r := rt
	r.delTimer(t)
	t.period = d
	r.cur.hash = mix(r.cur.hash, t.hid^0x53)
	r.addTimer(t, r.now+d)
}

// DrainChan discards buffered values of c (Go 1.23 timer-channel semantics: Stop/Reset leave no
// stale value behind); reports whether something was discarded.
func DrainChan[T any](c chan T) bool {
	cs := stateOfS[T](c)
	if cs == nil || len(cs.buf) == 0 {
		return false
	}
	cs.buf = nil
	cs.hash = mix(cs.hash, 0xd7a1)
	return true
}
