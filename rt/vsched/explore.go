package vsched

import (
	"encoding/json"
	"fmt"
	"hash/fnv"
	"os"
	"sort"
	"strings"
	"time"
)

// Violation is a failing execution, replayable from Choices.
type Violation struct {
	Kind    string   `json:"kind"` // oracle | panic | deadlock | diverged
	Sig     string   `json:"sig"`
	Msg     string   `json:"msg"`
	Choices []int    `json:"choices"`
	Log     []string `json:"log"`
	Count   int      `json:"count"` // executions that failed with this signature
}

// Result is the outcome of exploring one harness variant (one shard of it).
type Result struct {
	Harness        string         `json:"harness"`
	Variant        string         `json:"variant"`
	Shard          string         `json:"shard"`
	Bound          int            `json:"bound"`
	BoundCompleted int            `json:"bound_completed"` // -1: not even bound 0
	Executions     int64          `json:"executions"`
	Steps          int64          `json:"steps"`
	States         int64          `json:"states"`
	Pruned         int64          `json:"pruned"`
	Horizons       int64          `json:"horizons"`
	MaxChoices     int            `json:"max_choices"`
	LogHashes      []uint64       `json:"log_hashes"`
	LogHashesCap   bool           `json:"log_hashes_capped"`
	Violations     []*Violation   `json:"violations"`
	Exhaustive     bool           `json:"exhaustive"`
	CapHit         string         `json:"cap_hit,omitempty"`
	Samples        [][]string     `json:"samples"`
	SampleChoices  [][]int        `json:"sample_choices"`
	DevHistogram   map[string]int `json:"deviation_histogram"`
	WallS          float64        `json:"wall_s"`
	Error          string         `json:"error,omitempty"`
}

// Options control an exploration.
type Options struct {
	Bound     int
	ShardK    int
	ShardW    int
	MaxExec   int64
	Deadline  time.Time
	NoCache   bool
	MaxSteps  int
	Iterate   bool  // run bounds 0..Bound one after the other (reports the last completed)
	KeepGoing bool  // keep exploring after violations (collect distinct signatures)
	FreeCost  uint8 // see RunOptions.FreeCost
}

type explorer struct {
	body     func()
	o        Options
	res      *Result
	cache    map[uint64]int8
	logSet   map[uint64]struct{}
	vio      map[string]*Violation
	stop     bool
	bound    int
	rootKids int
}

const maxLogHashes = 200000

func hashLog(l []string) uint64 {
	h := fnv.New64a()
	for _, s := range l {
		h.Write([]byte(s))
		h.Write([]byte{0})
	}
	return h.Sum64()
}

func picks(cs []Choice, n int) []int {
	p := make([]int, n)
	for i := 0; i < n; i++ {
		p[i] = cs[i].Pick
	}
	return p
}

func (e *explorer) run(prefix []int, sigs []uint32) *Exec {
	x := RunOnce(e.body, RunOptions{Trace: debugTrace, FreeCost: e.o.FreeCost, Prefix: prefix, PrefixSigs: sigs, MaxSteps: e.o.MaxSteps, Bound: e.bound, Cache: e.cache})
	e.res.Executions++
	e.res.Steps += int64(x.Steps)
	e.res.States += int64(x.Keys)
	if len(x.Choices) > e.res.MaxChoices {
		e.res.MaxChoices = len(x.Choices)
	}
	return x
}

func (e *explorer) record(x *Exec, counted bool) {
	dev := 0
	for _, c := range x.Choices {
		dev += int(c.Cost[c.Pick])
	}
	if counted {
		e.res.DevHistogram[fmt.Sprint(dev)]++
	}
	add := func(kind, sig, msg string) {
		key := kind + "|" + sig
		v := e.vio[key]
		if v == nil {
			v = &Violation{Kind: kind, Sig: sig, Msg: msg, Choices: picks(x.Choices, len(x.Choices)), Log: x.Log}
			e.vio[key] = v
			e.res.Violations = append(e.res.Violations, v)
		} else if len(x.Choices) < len(v.Choices) {
			v.Choices, v.Log, v.Msg = picks(x.Choices, len(x.Choices)), x.Log, msg
		}
		v.Count++
		if !e.o.KeepGoing {
			e.stop = true
		}
	}
	if x.Diverged != "" {
		add("diverged", "diverged", x.Diverged)
		e.stop = true
		return
	}
	if x.Panic != "" {
		first := x.Panic
		if i := strings.Index(first, "\n"); i > 0 {
			first = first[:i]
		}
		add("panic", panicSig(first), x.Panic)
	}
	if x.Deadlock != "" {
		sig := x.DeadlockSig
		if sig == "" {
			sig = "deadlock"
		}
		add("deadlock", sig, x.Deadlock)
	}
	if x.Horizon {
		e.res.Horizons++
	}
	for _, f := range x.Fails {
		add("oracle", f.Sig, f.Msg)
	}
	if x.Pruned || x.Horizon {
		if x.Pruned {
			e.res.Pruned++
		}
		return
	}
	h := hashLog(x.Log)
	if _, ok := e.logSet[h]; !ok {
		if len(e.logSet) < maxLogHashes {
			e.logSet[h] = struct{}{}
			if len(e.res.Samples) < 6 {
				e.res.Samples = append(e.res.Samples, x.Log)
				e.res.SampleChoices = append(e.res.SampleChoices, picks(x.Choices, len(x.Choices)))
			}
		} else {
			e.res.LogHashesCap = true
		}
	}
}

func panicSig(first string) string {
	// strip addresses / numbers that vary
	var sb strings.Builder
	for _, r := range first {
		if r >= '0' && r <= '9' {
			continue
		}
		sb.WriteRune(r)
	}
	s := sb.String()
	if len(s) > 120 {
		s = s[:120]
	}
	return s
}

func (e *explorer) capped() bool {
	if e.stop {
		return true
	}
	if e.o.MaxExec > 0 && e.res.Executions >= e.o.MaxExec {
		e.res.CapHit = fmt.Sprintf("max executions %d", e.o.MaxExec)
		e.stop = true
		return true
	}
	if !e.o.Deadline.IsZero() && time.Now().After(e.o.Deadline) {
		e.res.CapHit = "wall-clock budget"
		e.stop = true
		return true
	}
	return false
}

// explore runs prefix and recursively every alternative within the bound. depth: number of
// ancestors (0 = root). mine: whether this execution is counted by this shard.
var debugTrace = os.Getenv("VSCHED_DEBUG") != ""

func (e *explorer) explore(prefix []int, sigs []uint32, spent int, depth int, mine bool, parent *Exec) {
	if e.capped() {
		return
	}
	x := e.run(prefix, sigs)
	if debugTrace && x.Diverged != "" && parent != nil {
		for j := 0; j < len(parent.Trace) || j < len(x.Trace); j++ {
			a, b := "<end>", "<end>"
			if j < len(parent.Trace) {
				a = parent.Trace[j]
			}
			if j < len(x.Trace) {
				b = x.Trace[j]
			}
			if a != b {
				for k := max(0, j-8); k < j; k++ {
					fmt.Fprintf(os.Stderr, "   same[%d] %s\n", k, x.Trace[k])
				}
				fmt.Fprintf(os.Stderr, " parent[%d] %s\n  child[%d] %s\n prefix=%v\n", j, a, j, b, prefix)
				break
			}
		}
	}
	if mine {
		e.record(x, true)
	} else if x.Diverged != "" {
		e.record(x, false)
	}
	if e.stop {
		return
	}
	for i := len(prefix); i < len(x.Choices); i++ {
		c := x.Choices[i]
		for alt := 1; alt < c.N; alt++ {
			cost := spent + int(c.Cost[alt])
			if cost > e.bound {
				continue
			}
			childMine := mine
			if depth == 0 && e.o.ShardW > 1 {
				childMine = e.rootKids%e.o.ShardW == e.o.ShardK
				e.rootKids++
				if !childMine {
					continue
				}
			}
			np := make([]int, i+1)
			for j := 0; j < i; j++ {
				np[j] = x.Choices[j].Pick
			}
			np[i] = alt
			ns := make([]uint32, i+1)
			for j := 0; j <= i; j++ {
				ns[j] = x.Choices[j].Sig
			}
			e.explore(np, ns, cost, depth+1, childMine, x)
			if e.stop {
				return
			}
		}
	}
}

// Explore enumerates the executions of body.
func Explore(harness, variant string, body func(), o Options) *Result {
	start := time.Now()
	if o.ShardW < 1 {
		o.ShardW = 1
	}
	res := &Result{Harness: harness, Variant: variant, Shard: fmt.Sprintf("%d/%d", o.ShardK, o.ShardW), Bound: o.Bound, BoundCompleted: -1, DevHistogram: map[string]int{}}
	e := &explorer{body: body, o: o, res: res, logSet: map[uint64]struct{}{}, vio: map[string]*Violation{}}
	b0 := o.Bound
	if o.Iterate {
		b0 = 0
	}
	for b := b0; b <= o.Bound; b++ {
		e.bound = b
		e.rootKids = 0
		if !o.NoCache {
			e.cache = map[uint64]int8{}
		}
		if b != b0 {
			// earlier bounds are re-explored; reset the counters that would double count
			res.DevHistogram = map[string]int{}
		}
		e.explore(nil, nil, 0, 0, o.ShardK == 0, nil)
		if e.stop {
			break
		}
		res.BoundCompleted = b
	}
	res.Exhaustive = res.BoundCompleted == o.Bound && res.CapHit == "" && res.Horizons == 0
	for h := range e.logSet {
		res.LogHashes = append(res.LogHashes, h)
	}
	sort.Slice(res.LogHashes, func(i, j int) bool { return res.LogHashes[i] < res.LogHashes[j] })
	res.WallS = time.Since(start).Seconds()
	return res
}

// Replay runs one recorded choice sequence n times and checks that the observations agree.
// maxSteps (optional) is the variant's per-execution step horizon; 0 / absent = default.
func Replay(body func(), choices []int, n int, maxSteps ...int) (*Exec, error) {
	// (costs do not matter for a replay: the bound is unlimited)
	var first *Exec
	ms := 0
	if len(maxSteps) > 0 {
		ms = maxSteps[0]
	}
	for i := 0; i < n; i++ {
		x := RunOnce(body, RunOptions{Prefix: choices, Bound: 1 << 20, MaxSteps: ms})
		if x.Diverged != "" {
			return x, fmt.Errorf("replay diverged: %s", x.Diverged)
		}
		if first == nil {
			first = x
			continue
		}
		if hashLog(first.Log) != hashLog(x.Log) || len(first.Fails) != len(x.Fails) || first.Panic != "" != (x.Panic != "") {
			return x, fmt.Errorf("replay %d produced different observations", i)
		}
	}
	return first, nil
}

// WriteJSON writes v to path (or stdout when path is "-").
func WriteJSON(path string, v any) error {
	b, err := json.MarshalIndent(v, "", " ")
	if err != nil {
		return err
	}
	if path == "-" {
		_, err = os.Stdout.Write(append(b, '\n'))
		return err
	}
	return os.WriteFile(path, b, 0o644)
}
