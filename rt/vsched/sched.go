// Package vsched is a cooperative, fully deterministic scheduler for Go code whose
// synchronisation operations were rewritten (by /verif/tools/vrewrite) to call the shim
// packages next to this one. Exactly one managed goroutine ("thread") runs at a time; every
// synchronisation operation is a scheduling point at which the scheduler knows which threads
// are enabled. The explorer (explore.go) enumerates the choices made at those points.
//
// When no execution is active every shim falls through to the real primitive ("REAL mode"),
// so package initialisers and the free-running -race pass work unchanged.
package vsched

import (
	"fmt"
	"runtime"
	"time"
	"runtime/debug"
	"sort"
	"strings"
	realatomic "sync/atomic"
)

// OpKind names the kind of a pending operation (debugging, hashing).
type OpKind uint8

const (
	OpStart OpKind = iota
	OpLock
	OpRLock
	OpAtomic
	OpChan
	OpWGWait
	OpCond
	OpOnce
	OpSleep
	OpYield
	OpSpawn
	OpIdle
	OpMap
	OpJoin
	OpOther
)

var opNames = [...]string{"start", "lock", "rlock", "atomic", "chan", "wgwait", "cond", "once", "sleep", "yield", "spawn", "idle", "map", "join", "other"}

func (k OpKind) String() string { return opNames[k] }

// Obj is embedded in every shim object. It carries the per-execution identity and the
// happens-before hash of the object. Objects surviving from an earlier execution (package
// globals) are lazily reset through the epoch.
type Obj struct {
	epoch uint32
	hid   uint64
	hash  uint64
}

// Fresh reports whether the object was (re)initialised for the current execution by this call.
// Shim types call it at the start of every operation and reset their own state when true.
func (o *Obj) Fresh() bool {
	r := rt
	if o.epoch == r.epoch {
		return false
	}
	o.epoch = r.epoch
	t := r.cur
	t.objCtr++
	o.hid = mix(mix(uint64(t.id)+1, t.objCtr), 0x9e3779b97f4a7c15)
	o.hash = o.hid
	return true
}

type thread struct {
	id      int
	name    string
	gate    chan struct{}
	done    bool
	kind    OpKind
	en      func() bool // nil = always enabled
	cw      *chanWait
	idle    bool
	yielded bool
	hash    uint64
	objCtr  uint64
	spawnN  int
	killed  bool
	exited  chan struct{}
	bg      bool // background thread (node housekeeping): see BackgroundExisting
	chanBlocks int     // how many channel operations of this thread had to wait
	pcs     [8]uintptr // call stack of the latest scheduling point (for deadlock signatures)
	npcs    int
}

type abortSignal struct{}

// Choice is one recorded choice point with more than one alternative.
type Choice struct {
	N    int     // number of alternatives
	Pick int     // alternative taken
	Cost []uint8 // deviation cost per alternative (Cost[0] == 0)
	Kind byte    // 's' schedule, 'c' select case, 'e' environment (Choose), 'f' free environment
	Sig  uint32  // signature of the alternatives (divergence detection)
}

// Exec is the result of one execution.
type Exec struct {
	Choices  []Choice
	Steps    int
	Deadlock string
	DeadlockSig string // "deadlock:" + the functions in which threads are blocked on locks
	Horizon  bool
	Pruned   bool
	Panic    string
	Diverged string
	Log      []string
	Fails    []Failure
	Keys     int // distinct state keys first seen in this execution
	Trace    []string
	Threads  []string // debugging: names of all threads of the execution
}

// Failure is an oracle failure reported by a harness.
type Failure struct {
	Sig string // stable signature: clause + discriminating input
	Msg string
}

type runtimeState struct {
	epoch    uint32
	threads  []*thread
	cur      *thread
	now      int64
	horizon  int64
	timers   []*Timer
	timerSeq uint64
	chans    map[uintptr]*chanState

	prefix     []int
	prefixSigs []uint32
	pos        int
	x          *Exec

	maxSteps int
	finished bool
	doneCh   chan struct{}
	aborting bool

	cache     map[uint64]int8 // state key -> remaining budget explored
	bound     int
	spent     int
	useCache  bool
	trace     bool
	freeCost  uint8
	quiet     bool // setup / settle phase: default choices only, nothing recorded
	keysSeen  int
	resetters []func()
}

// RaceMode is set by the free-running race pass (E3): harness bodies run in REAL mode with real
// goroutines and the real clock under the race detector; WaitIdle / Advance become short real
// sleeps and oracle failures are ignored.
var RaceMode bool

var rt = &runtimeState{}
var active realatomic.Bool

// Active reports whether a controlled execution is running (SCHED mode).
func Active() bool { return active.Load() }

// perExecResetters are run at the start of every execution (deterministic pools etc.).
var globalResetters []func()

// OnReset registers f to run at the start of every execution. Call from init or first use.
func OnReset(f func()) { globalResetters = append(globalResetters, f) }

func mix(a, b uint64) uint64 {
	x := a ^ (b + 0x9e3779b97f4a7c15 + (a << 6) + (a >> 2))
	x ^= x >> 30
	x *= 0xbf58476d1ce4e5b9
	x ^= x >> 27
	x *= 0x94d049bb133111eb
	x ^= x >> 31
	return x
}

// Touch records an access of the current thread to o (happens-before hashing).
func Touch(o *Obj, kind OpKind) {
	t := rt.cur
	h := mix(mix(t.hash, o.hash), uint64(kind)+1)
	t.hash = h
	o.hash = h
}

// MixThread folds a value into the current thread's history hash (values that came from the
// environment and influence control flow).
func MixThread(v uint64) { rt.cur.hash = mix(rt.cur.hash, v) }

// Point is a scheduling point. The calling thread announces an operation that is enabled when
// en() is true (nil: always). Point returns when the scheduler has chosen this thread to run
// with the operation enabled; the caller then performs the operation immediately.
func Point(kind OpKind, en func() bool) {
	r := rt
	t := r.cur
	if t.killed {
		runtime.Goexit()
	}
	t.kind = kind
	t.en = en
	if kind == OpLock || kind == OpRLock {
		t.npcs = runtime.Callers(2, t.pcs[:])
	}
	t.hash = mix(t.hash, uint64(kind)+0x100)
	if r.trace {
		r.x.Trace = append(r.x.Trace, fmt.Sprintf("t%d(%s):%s %s", t.id, t.name, kind, callerInfo()))
	}
	r.reschedule(t, false)
	t.en = nil
}

func (r *runtimeState) enabled(u *thread) bool {
	if u.done || u.idle {
		return false
	}
	if u.cw != nil {
		return r.chanWaitReady(u)
	}
	if u.en == nil {
		return true
	}
	return u.en()
}

func (r *runtimeState) clockEligible() bool {
	return len(r.timers) > 0 && r.timers[0].when <= r.horizon
}

// reschedule picks the next thread to run. exiting: the caller is finished and must not be
// chosen or parked.
func (r *runtimeState) reschedule(t *thread, exiting bool) {
	firstIter := true
	for {
		if r.finished {
			if exiting {
				return
			}
			r.parkForever(t)
		}
		r.x.Steps++
		if r.x.Steps > r.maxSteps {
			r.x.Horizon = true
			r.finish()
			if exiting {
				return
			}
			r.parkForever(t)
		}
		var list []*thread
		selfEnabled := !exiting && r.enabled(t)
		if firstIter {
			firstIter = false
			if !selfEnabled && !exiting && t.kind == OpChan {
				t.chanBlocks++
			}
		}
		if selfEnabled && !t.yielded {
			list = append(list, t)
		}
		nfg := len(list)
		if NewestFirst {
			// alternative default order: the most recently created foreground thread first (the
			// default schedule then follows a spawn chain to its end before older threads resume)
			for i := len(r.threads) - 1; i >= 0; i-- {
				if u := r.threads[i]; u != t && !u.bg && r.enabled(u) {
					list = append(list, u)
				}
			}
		} else {
			for _, u := range r.threads {
				if u != t && !u.bg && r.enabled(u) {
					list = append(list, u)
				}
			}
		}
		nfg = len(list) - nfg
		for _, u := range r.threads {
			if u != t && u.bg && r.enabled(u) {
				list = append(list, u)
			}
		}
		_ = nfg
		if selfEnabled && t.yielded {
			list = append(list, t)
		}
		t.yielded = false
		clock := r.clockEligible()
		n := len(list)
		if clock {
			n++
		}
		if n == 0 {
			// nothing enabled: an idle waiter (lowest id) gets to run, else deadlock
			var idle *thread
			for _, u := range r.threads {
				if u.idle && !u.done {
					idle = u
					break
				}
			}
			if idle == nil {
				r.x.Deadlock = r.describeBlocked()
				r.x.DeadlockSig = r.deadlockSig()
				r.finish()
				if exiting {
					return
				}
				r.parkForever(t)
			}
			idle.idle = false
			if idle == t && !exiting {
				return
			}
			r.switchTo(t, idle, exiting)
			return
		}
		pick := 0
		if n > 1 {
			if r.useCache && !r.quiet && r.checkCache(t, exiting) {
				r.x.Pruned = true
				r.finish()
				if exiting {
					return
				}
				r.parkForever(t)
			}
			cost := make([]uint8, n)
			preempt := selfEnabled && len(list) > 0 && list[0] == t
			var sig uint32 = uint32(n)
			for i := 1; i < n; i++ {
				if preempt {
					cost[i] = 1
				}
			}
			if !preempt {
				// free choice among foreground threads; a background (housekeeping) thread
				// runs by default only when no foreground thread is enabled, and then in id
				// order: picking one out of that order is a deviation
				for i := 1; i < len(list); i++ {
					if list[i].bg {
						cost[i] = 1
					}
				}
			}
			if !preempt && r.freeCost > 0 {
				// delay bounding: when the running thread blocked or ended, picking any
				// thread but the first enabled one is a deviation as well
				for i := 1; i < n; i++ {
					cost[i] = r.freeCost
				}
			}
			if clock && len(list) > 0 {
				cost[n-1] = 1
			}
			for _, u := range list {
				sig = sig*31 + uint32(u.id) + 7
			}
			if clock {
				sig = sig*31 + 3
			}
			pick = r.choose('s', n, cost, sig)
		}
		if clock && pick == n-1 {
			r.fireNextTimer()
			continue
		}
		u := list[pick]
		if u == t {
			return
		}
		r.switchTo(t, u, exiting)
		return
	}
}

func (r *runtimeState) switchTo(t, u *thread, exiting bool) {
	r.cur = u
	u.gate <- struct{}{}
	if exiting {
		return
	}
	r.park(t)
}

func (r *runtimeState) park(t *thread) {
	<-t.gate
	if t.killed {
		runtime.Goexit()
	}
}

func (r *runtimeState) parkForever(t *thread) {
	// execution is over; wait to be killed
	<-t.gate
	t.killed = true
	runtime.Goexit()
}

func (r *runtimeState) finish() {
	if !r.finished {
		r.finished = true
		close(r.doneCh)
	}
}

func (r *runtimeState) describeAll() string {
	var sb strings.Builder
	for _, u := range r.threads {
		st := "parked"
		if u.done {
			st = "done"
		} else if r.enabled(u) {
			st = "enabled"
		}
		fmt.Fprintf(&sb, "[t%d %s %s@%s]", u.id, u.name, st, u.kind)
	}
	return sb.String()
}

func (r *runtimeState) describeBlocked() string {
	var sb strings.Builder
	for _, u := range r.threads {
		if !u.done {
			fmt.Fprintf(&sb, "[t%d %s blocked at %s]", u.id, u.name, u.kind)
		}
	}
	if sb.Len() == 0 {
		return "no threads"
	}
	return sb.String()
}

// deadlockSig names the functions in which threads sit blocked on a lock (the participants of a
// lock cycle), so that two different deadlocks of one harness are two different findings.
func (r *runtimeState) deadlockSig() string {
	seen := map[string]bool{}
	var fns []string
	for _, u := range r.threads {
		if u.done || (u.kind != OpLock && u.kind != OpRLock) || u.npcs == 0 {
			continue
		}
		frames := runtime.CallersFrames(u.pcs[:u.npcs])
		for {
			f, more := frames.Next()
			if f.Function != "" && !strings.Contains(f.Function, "zzverif/") {
				fn := f.Function
				if i := strings.LastIndex(fn, "/"); i >= 0 {
					fn = fn[i+1:]
				}
				if !seen[fn] {
					seen[fn] = true
					fns = append(fns, fn)
				}
				break
			}
			if !more {
				break
			}
		}
	}
	if len(fns) == 0 {
		return "deadlock"
	}
	sort.Strings(fns)
	return "deadlock:" + strings.Join(fns, "+")
}

// choose records/replays a choice with n alternatives.
func (r *runtimeState) choose(kind byte, n int, cost []uint8, sig uint32) int {
	if r.quiet {
		return 0
	}
	pick := 0
	idx := len(r.x.Choices)
	if idx < len(r.prefix) {
		pick = r.prefix[idx]
		if idx < len(r.prefixSigs) && r.prefixSigs[idx] != sig && r.x.Diverged == "" {
			r.x.Diverged = fmt.Sprintf("choice %d (kind %c, %d alternatives): alternatives differ from the recorded run; running thread %s at %s; threads: %s", idx, kind, n, r.cur.name, r.cur.kind, r.describeAll())
		}
		if pick >= n {
			r.x.Diverged = fmt.Sprintf("choice %d: prefix wants alternative %d of %d (kind %c)", idx, pick, n, kind)
			pick = 0
			r.prefix = r.prefix[:idx]
		}
	}
	r.x.Choices = append(r.x.Choices, Choice{N: n, Pick: pick, Cost: cost, Kind: kind, Sig: sig})
	r.spent += int(cost[pick])
	if kind != 's' {
		r.cur.hash = mix(r.cur.hash, uint64(pick)<<8|uint64(kind))
	}
	return pick
}

// stateKey hashes the global state: all thread histories, who is running, clock and timers.
func (r *runtimeState) stateKey(t *thread, exiting bool) uint64 {
	var k uint64 = 0x1234567
	for _, u := range r.threads {
		h := u.hash
		if u.done {
			h = mix(h, 0xdead)
		}
		if u.idle {
			h = mix(h, 0x1d1e)
		}
		k = mix(k, mix(uint64(u.id), h))
	}
	if !exiting {
		k = mix(k, uint64(t.id)+0x77)
	}
	k = mix(k, uint64(r.now))
	k = mix(k, uint64(r.horizon))
	for _, tm := range r.timers {
		k = mix(k, mix(uint64(tm.when), tm.hid))
	}
	return k
}

// checkCache returns true when the current state was already expanded with at least the
// remaining deviation budget (only used past the replayed prefix).
func (r *runtimeState) checkCache(t *thread, exiting bool) bool {
	key := r.stateKey(t, exiting)
	rem := int8(r.bound - r.spent)
	old, ok := r.cache[key]
	if !ok {
		r.keysSeen++
		r.x.Keys++
	}
	if len(r.x.Choices) < len(r.prefix) {
		// still replaying: never prune, but remember the best budget
		if !ok || old < rem {
			r.cache[key] = rem
		}
		return false
	}
	if ok && old >= rem {
		return true
	}
	r.cache[key] = rem
	return false
}

// Go starts f as a new managed thread (REAL mode: a plain goroutine).
func Go(f func()) {
	if !Active() {
		go f()
		return
	}
	r := rt
	p := r.cur
	if p.killed {
		runtime.Goexit()
	}
	p.spawnN++
	u := r.newThread(fmt.Sprintf("%s.%d", p.name, p.spawnN), f)
	u.hash = mix(p.hash, uint64(p.spawnN)+0x60)
	p.hash = mix(p.hash, 0x5bad)
	Point(OpSpawn, nil)
}

func (r *runtimeState) newThread(name string, f func()) *thread {
	u := &thread{id: len(r.threads), name: name, gate: make(chan struct{}, 1), exited: make(chan struct{})}
	u.kind = OpStart
	r.threads = append(r.threads, u)
	go r.threadMain(u, f)
	return u
}

func (r *runtimeState) threadMain(u *thread, f func()) {
	defer close(u.exited)
	<-u.gate
	if u.killed {
		return
	}
	defer func() {
		if u.killed {
			return
		}
		if p := recover(); p != nil {
			if _, ok := p.(abortSignal); !ok {
				if r.x.Panic == "" {
					r.x.Panic = fmt.Sprintf("panic in thread %s: %v\n%s", u.name, p, trimStack(debug.Stack()))
				}
				u.done = true
				r.finish()
				return
			}
		}
		u.done = true
		if u.id == 0 {
			r.finish()
			return
		}
		r.reschedule(u, true)
	}()
	f()
}

func trimStack(b []byte) string {
	s := string(b)
	lines := strings.Split(s, "\n")
	var out []string
	for i := 0; i < len(lines); i++ {
		l := lines[i]
		if strings.Contains(l, "zzverif/vsched") && !strings.Contains(l, "zz_verif") || strings.Contains(l, "runtime/debug") || strings.Contains(l, "runtime/panic") {
			i++
			continue
		}
		out = append(out, l)
		if len(out) > 40 {
			break
		}
	}
	return strings.Join(out, "\n")
}

// WaitIdle blocks the caller until no other thread is enabled and no timer up to the horizon
// is pending. Used by harness main threads to settle the system.
func WaitIdle() {
	if !Active() {
		if RaceMode {
			time.Sleep(15 * time.Millisecond)
		}
		return
	}
	r := rt
	t := r.cur
	if t.killed {
		runtime.Goexit()
	}
	t.idle = true
	t.kind = OpIdle
	t.hash = mix(t.hash, uint64(OpIdle)+0x100)
	r.reschedule(t, false)
}

// Yield deprioritises the caller once (runtime.Gosched and spin loops).
func Yield() {
	if !Active() {
		runtime.Gosched()
		return
	}
	rt.cur.yielded = true
	Point(OpYield, nil)
}

// Choose is an environment choice with n alternatives; alternative 0 is the default and any
// other costs one deviation.
func Choose(n int) int { return chooseEnv(n, 1, 'e') }

// ChooseFree is an environment choice whose alternatives are all explored without cost
// (exhaustive input enumeration).
func ChooseFree(n int) int { return chooseEnv(n, 0, 'f') }

func chooseEnv(n int, c uint8, kind byte) int {
	if !Active() || n <= 1 {
		return 0
	}
	cost := make([]uint8, n)
	for i := 1; i < n; i++ {
		cost[i] = c
	}
	return rt.choose(kind, n, cost, uint32(n)*131+uint32(kind))
}

// Logf appends an observation to the execution log.
func Logf(format string, a ...any) {
	if !Active() {
		return
	}
	rt.x.Log = append(rt.x.Log, fmt.Sprintf(format, a...))
}

// Failf records an oracle failure with a stable signature.
func Failf(sig string, format string, a ...any) {
	if !Active() && RaceMode {
		return // free-running race pass: oracles are not evaluated (nothing is settled deterministically)
	}
	if !Active() {
		panic("vsched.Failf outside an execution: " + sig + ": " + fmt.Sprintf(format, a...))
	}
	rt.x.Fails = append(rt.x.Fails, Failure{Sig: sig, Msg: fmt.Sprintf(format, a...)})
}

// ThreadID returns the id of the running thread (0 = harness main).
func ThreadID() int {
	if !Active() {
		return -1
	}
	return rt.cur.id
}

// NameThread names the current thread in deadlock reports.
func NameThread(n string) {
	if Active() {
		rt.cur.name = n
	}
}

// RunOptions configure one execution.
// NewestFirst selects the alternative canonical order of enabled foreground threads (descending
// creation order instead of ascending). Set once per process by the CLI from Variant.LIFO.
var NewestFirst bool

type RunOptions struct {
	FreeCost   uint8 // cost of a non-default pick when the running thread is not enabled (0: CHESS preemption bounding; 1: delay bounding)
	Trace      bool
	Prefix     []int
	PrefixSigs []uint32 // optional: signatures recorded by the parent run (divergence detection)
	MaxSteps   int
	Bound      int
	Cache      map[uint64]int8 // nil disables state caching
}

// Base of the virtual clock: 2026-01-01T00:00:00Z in unix nanoseconds.
const BaseUnixNano int64 = 1767225600 * 1e9

// RunOnce executes body once as thread 0 under the controlled scheduler.
func RunOnce(body func(), o RunOptions) *Exec {
	if Active() {
		panic("vsched: nested RunOnce")
	}
	r := rt
	r.epoch++
	r.threads = nil
	r.now = 0
	r.horizon = 0
	r.timers = nil
	r.timerSeq = 0
	r.chans = map[uintptr]*chanState{}
	r.prefix = append([]int(nil), o.Prefix...)
	r.prefixSigs = o.PrefixSigs
	r.x = &Exec{}
	r.maxSteps = o.MaxSteps
	if r.maxSteps == 0 {
		r.maxSteps = 200000
	}
	r.finished = false
	r.doneCh = make(chan struct{})
	r.aborting = false
	r.quiet = false
	r.trace = o.Trace
	r.freeCost = o.FreeCost
	r.bound = o.Bound
	r.spent = 0
	r.cache = o.Cache
	r.useCache = o.Cache != nil
	main := r.newThread("main", body)
	main.hash = 0x6d61696e
	r.cur = main
	active.Store(true)
	for _, f := range globalResetters {
		f()
	}
	main.gate <- struct{}{}
	<-r.doneCh
	// kill the remaining threads one at a time so that their deferred calls never overlap
	r.aborting = true
	for i := 0; i < len(r.threads); i++ { // threads may grow while deferred code spawns
		u := r.threads[i]
		select {
		case <-u.exited:
			continue
		default:
		}
		u.killed = true
		r.cur = u
		select {
		case u.gate <- struct{}{}:
		default:
		}
		<-u.exited
	}
	active.Store(false)
	x := r.x
	for _, u := range r.threads {
		x.Threads = append(x.Threads, u.name)
	}
	if x.Diverged == "" && len(x.Choices) < len(o.Prefix) && !x.Pruned {
		x.Diverged = fmt.Sprintf("execution ended after %d choices but prefix has %d (steps=%d deadlock=%q horizon=%v panic=%q log=%v)", len(x.Choices), len(o.Prefix), x.Steps, x.Deadlock, x.Horizon, x.Panic, x.Log)
	}
	return x
}

// Killed reports whether the current thread is being torn down (shims turn into no-ops).
func Killed() bool { return rt.aborting }

// sortedThreadIDs is used in tests.
func sortedThreadIDs(ts []*thread) []int {
	var ids []int
	for _, t := range ts {
		ids = append(ids, t.id)
	}
	sort.Ints(ids)
	return ids
}

// Visible is a scheduling point for harness doubles: call it at the start of every action
// the environment can observe (transport write, broker call, application callback), so that
// other threads can be scheduled between the implementation's last synchronisation and the
// observable action.
func Visible() {
	if !Active() || Killed() {
		return
	}
	Point(OpOther, nil)
}

// ChanBlocks reports how many channel operations (receive, send, select without default) of the
// calling thread found nothing ready and had to wait, so far in this execution. Harnesses use the
// difference around a call to learn whether the call parked on a channel (e.g. a wait gate).
func ChanBlocks() int {
	if !Active() {
		return 0
	}
	return rt.cur.chanBlocks
}

// GlobalPoint is the scheduling point the rewriter inserts before every statement that touches
// a package-level variable written after initialisation (see tools/cmd/vrewrite/globals.go):
// plain shared memory becomes visible to the scheduler like a lock or an atomic.
func GlobalPoint(name string) {
	if !Active() || Killed() {
		return
	}
	o := globalObjs[name]
	if o == nil {
		o = &Obj{}
		globalObjs[name] = o
	}
	o.Fresh()
	Point(OpOther, nil)
	Touch(o, OpOther)
}

var globalObjs = map[string]*Obj{}

// Quiet switches exploration off (true) or on (false) for the calling execution: while quiet,
// every choice takes its default and is not recorded. Harnesses run their setup (node start,
// connects) and, where order cannot matter, their final drain quietly, so that the explored
// choice points are exactly those of the concurrent phase.
func Quiet(q bool) {
	if Active() {
		rt.quiet = q
	}
}

func callerInfo() string {
	pcs := make([]uintptr, 12)
	n := runtime.Callers(3, pcs)
	frames := runtime.CallersFrames(pcs[:n])
	var out []string
	for {
		f, more := frames.Next()
		if !strings.Contains(f.Function, "zzverif/") {
			fn := f.Function
			if i := strings.LastIndex(fn, "/"); i >= 0 {
				fn = fn[i+1:]
			}
			out = append(out, fmt.Sprintf("%s:%d", fn, f.Line))
			if len(out) >= 3 {
				break
			}
		}
		if !more {
			break
		}
	}
	return strings.Join(out, " < ")
}

// Tracing reports whether the current execution records a trace (debugging aid).
func Tracing() bool { return Active() && rt.trace }

// TraceNote appends a note to the trace.
func TraceNote(s string) {
	if Tracing() {
		rt.x.Trace = append(rt.x.Trace, "   note: "+s)
	}
}

// BackgroundExisting marks every thread that exists now (except the caller) as a background
// thread: node housekeeping goroutines (ping / cleanup / metrics / expiry loops, dissolver
// workers). At a point where the running thread is blocked or done, the default scheduler runs
// foreground threads first (all orders explored at no cost, as before) and background threads
// only when no foreground thread is enabled, in id order; running a background thread earlier
// or out of order costs one deviation. Preempting a running thread costs one deviation whatever
// the kind of the other thread. Without this, the housekeeping goroutines that wake up together
// (e.g. on shutdown) multiply the zero-cost schedules exponentially.
func BackgroundExisting() {
	if !Active() {
		return
	}
	for _, u := range rt.threads {
		if u != rt.cur && !u.done {
			u.bg = true
		}
	}
}
