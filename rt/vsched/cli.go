package vsched

import (
	"encoding/json"
	"flag"
	"fmt"
	"hash/fnv"
	"os"
	"runtime/debug"
	"runtime/pprof"
	"sort"
	"strconv"
	"strings"
	"time"
)

// Variant is one configuration of a harness.
type Variant struct {
	Name     string `json:"name"`
	Bound    int    `json:"bound"`     // deviation bound (sched harnesses)
	MaxSteps int    `json:"max_steps"` // per-execution step horizon (0: default)
	NoCache  bool   `json:"no_cache"`
	BudgetS  int    `json:"budget_s"` // wall-clock cap per shard (0: tier default)
	Shards   int    `json:"shards"`   // how many processes to split this variant over (0: 1)
	Iterate  bool   `json:"iterate"`  // iterate the bound 0..Bound
	Delay    bool   `json:"delay"`
	LIFO     bool   `json:"lifo"`     // default order among enabled foreground threads: newest first    // delay bounding: non-default picks at blocking points cost one deviation too
}

// Harness is a registered check body.
type Harness struct {
	Name     string
	Props    []string
	Kind     string // "sched": body explored under the scheduler; "enum": self-enumerating in REAL mode
	Doc      string // one line: alphabet / bound / oracle
	Variants func(tier string) []Variant
	Sched    func(v Variant) func()
	Enum     func(v Variant, e *Enum)
}

var registry = map[string]*Harness{}

// Register adds a harness (call from init in a `verif`-tagged file).
func Register(h *Harness) {
	if _, dup := registry[h.Name]; dup {
		panic("duplicate harness " + h.Name)
	}
	registry[h.Name] = h
}

// Enum is the context of a self-enumerating harness.
type Enum struct {
	ShardK, ShardW int
	Tier           string
	deadline       time.Time
	res            *Result
	distinct       map[uint64]struct{}
	vio            map[string]*Violation
	caseNo         int64
}

// Mine reports whether case number i (any stable numbering chosen by the harness) belongs to this shard.
func (e *Enum) Mine(i int64) bool { return e.ShardW <= 1 || int(i%int64(e.ShardW)) == e.ShardK }

// Case counts one evaluated case; class identifies what made it non-trivial ("" = trivial).
// ops is the number of operations / transitions the case applied to the implementation.
func (e *Enum) Case(class string, ops int) {
	e.res.Executions++
	e.res.Steps += int64(ops)
	if class != "" {
		h := fnv.New64a()
		h.Write([]byte(class))
		k := h.Sum64()
		if _, ok := e.distinct[k]; !ok && len(e.distinct) < maxLogHashes {
			e.distinct[k] = struct{}{}
		}
	}
}

// State counts a distinct canonical state discovered by an explicit-state search.
func (e *Enum) State() { e.res.States++ }

// Sample records an example case (only the first few are kept).
func (e *Enum) Sample(s string) {
	if len(e.res.Samples) < 8 {
		e.res.Samples = append(e.res.Samples, []string{s})
	}
}

// Fail reports an oracle failure. replay describes the failing input / operation list.
func (e *Enum) Fail(sig, msg string, replay []string) {
	v := e.vio[sig]
	if v == nil {
		v = &Violation{Kind: "oracle", Sig: sig, Msg: msg, Log: replay}
		e.vio[sig] = v
		e.res.Violations = append(e.res.Violations, v)
	}
	v.Count++
}

// Expired reports whether the wall-clock budget is used up; the harness must then stop and
// the run is reported as not exhaustive.
func (e *Enum) Expired() bool {
	if !e.deadline.IsZero() && time.Now().After(e.deadline) {
		e.res.CapHit = "wall-clock budget"
		return true
	}
	return false
}

// Incomplete marks the run as not exhaustive for the given reason.
func (e *Enum) Incomplete(why string) { e.res.CapHit = why }

func runEnum(h *Harness, v Variant, tier string, k, w int, budget time.Duration) (res *Result) {
	start := time.Now()
	res = &Result{Harness: h.Name, Variant: v.Name, Shard: fmt.Sprintf("%d/%d", k, w), DevHistogram: map[string]int{}}
	e := &Enum{ShardK: k, ShardW: w, Tier: tier, res: res, distinct: map[uint64]struct{}{}, vio: map[string]*Violation{}}
	if budget > 0 {
		e.deadline = start.Add(budget)
	}
	defer func() {
		if p := recover(); p != nil {
			msg := fmt.Sprintf("panic: %v\n%s", p, trimStack(debug.Stack()))
			first := fmt.Sprint(p)
			res.Violations = append(res.Violations, &Violation{Kind: "panic", Sig: panicSig(first), Msg: msg, Count: 1})
		}
		for k := range e.distinct {
			res.LogHashes = append(res.LogHashes, k)
		}
		sort.Slice(res.LogHashes, func(i, j int) bool { return res.LogHashes[i] < res.LogHashes[j] })
		res.Exhaustive = res.CapHit == "" && len(res.Violations) == 0 || res.CapHit == ""
		res.WallS = time.Since(start).Seconds()
	}()
	h.Enum(v, e)
	return res
}

// Main is the command line of the harness binary.
//
//	vmain list -tier quick
//	vmain run -harness H -variant V -tier quick -shard 0/4 -budget 40 -out res.json
//	vmain replay -harness H -variant V -choices 0,1,0 [-n 5]
func Main(args []string) int {
	if len(args) == 0 {
		fmt.Fprintln(os.Stderr, "usage: vmain list|run|replay ...")
		return 2
	}
	fs := flag.NewFlagSet(args[0], flag.ExitOnError)
	hname := fs.String("harness", "", "")
	vname := fs.String("variant", "", "")
	tier := fs.String("tier", "quick", "")
	shard := fs.String("shard", "0/1", "")
	budget := fs.Int("budget", 0, "seconds")
	out := fs.String("out", "-", "")
	choices := fs.String("choices", "", "")
	nrep := fs.Int("n", 5, "")
	boundOverride := fs.Int("bound", -1, "")
	maxExec := fs.Int64("maxexec", 0, "")
	nocache := fs.Bool("nocache", false, "")
	verbose := fs.Bool("v", false, "")
	cpuprof := fs.String("cpuprofile", "", "")
	_ = fs.Parse(args[1:])
	if *cpuprof != "" {
		f, _ := os.Create(*cpuprof)
		_ = pprof.StartCPUProfile(f)
		defer pprof.StopCPUProfile()
	}
	switch args[0] {
	case "list":
		type hl struct {
			Name     string    `json:"name"`
			Props    []string  `json:"props"`
			Kind     string    `json:"kind"`
			Doc      string    `json:"doc"`
			Variants []Variant `json:"variants"`
		}
		var l []hl
		for _, h := range registry {
			l = append(l, hl{h.Name, h.Props, h.Kind, h.Doc, h.Variants(*tier)})
		}
		sort.Slice(l, func(i, j int) bool { return l[i].Name < l[j].Name })
		_ = WriteJSON("-", l)
		return 0
	case "race":
		// E3: free-running pass under the race detector (binary built with -race)
		h := registry[*hname]
		if h == nil || h.Kind != "sched" {
			fmt.Fprintln(os.Stderr, "race: unknown or non-sched harness", *hname)
			return 2
		}
		RaceMode = true
		done := 0
		nv := 0
		for _, v := range h.Variants(*tier) {
			if *vname != "" && v.Name != *vname {
				continue
			}
			nv++
			if *maxExec > 0 && int64(nv) > *maxExec {
				break // -maxexec doubles as "at most this many variants" for the race pass
			}
			for i := 0; i < *nrep; i++ {
				fin := make(chan struct{})
				body := h.Sched(v)
				go func() {
					defer func() { _ = recover(); close(fin) }()
					body()
				}()
				select {
				case <-fin:
					done++
				case <-time.After(8 * time.Second):
					// a body waiting on long real-time timers: abandon this iteration
				}
			}
		}
		fmt.Printf("race-pass harness=%s iterations-completed=%d\n", h.Name, done)
		return 0
	case "run", "replay", "tracediff":
		h := registry[*hname]
		if h == nil {
			fmt.Fprintln(os.Stderr, "unknown harness", *hname)
			return 2
		}
		var v *Variant
		for _, x := range h.Variants(*tier) {
			if x.Name == *vname {
				x := x
				v = &x
			}
		}
		if v == nil {
			fmt.Fprintln(os.Stderr, "unknown variant", *vname)
			return 2
		}
		if *boundOverride >= 0 {
			v.Bound = *boundOverride
		}
		if *nocache {
			v.NoCache = true
		}
		if args[0] == "tracediff" {
			NewestFirst = v.LIFO
			var cs []int
			for _, s := range strings.Split(*choices, ",") {
				if s != "" {
					n, _ := strconv.Atoi(s)
					cs = append(cs, n)
				}
			}
			var first *Exec
			for i := 0; i < *nrep; i++ {
				x := RunOnce(h.Sched(*v), RunOptions{Prefix: cs, Bound: 1 << 20, Trace: true})
				fmt.Printf("run %d: choices=%d steps=%d trace=%d diverged=%q\n", i, len(x.Choices), x.Steps, len(x.Trace), x.Diverged)
				if *verbose && i == 0 {
					for k, l := range x.Trace {
						fmt.Printf("%5d %s\n", k, l)
					}
				}
				if first == nil {
					first = x
					continue
				}
				for j := 0; j < len(first.Trace) || j < len(x.Trace); j++ {
					a, b := "<end>", "<end>"
					if j < len(first.Trace) {
						a = first.Trace[j]
					}
					if j < len(x.Trace) {
						b = x.Trace[j]
					}
					if a != b {
						lo := j - 6
						if lo < 0 {
							lo = 0
						}
						for k := lo; k < j; k++ {
							fmt.Printf("   same[%d] %s\n", k, first.Trace[k])
						}
						fmt.Printf("  first[%d] %s\n  run%d[%d] %s\n", j, a, i, j, b)
						break
					}
				}
			}
			return 0
		}
		if args[0] == "replay" {
			if h.Kind != "sched" {
				fmt.Fprintln(os.Stderr, "replay applies to sched harnesses; enum harnesses are deterministic: re-run the variant")
				return 2
			}
			var cs []int
			for _, s := range strings.Split(*choices, ",") {
				if s == "" {
					continue
				}
				n, err := strconv.Atoi(s)
				if err != nil {
					fmt.Fprintln(os.Stderr, "bad choices")
					return 2
				}
				cs = append(cs, n)
			}
			NewestFirst = v.LIFO
			x, err := Replay(h.Sched(*v), cs, *nrep, v.MaxSteps)
			type rep struct {
				Err      string    `json:"error,omitempty"`
				Log      []string  `json:"log"`
				Fails    []Failure `json:"fails"`
				Panic    string    `json:"panic,omitempty"`
				Deadlock string    `json:"deadlock,omitempty"`
				Steps    int       `json:"steps"`
				Threads  []string  `json:"threads"`
				Choices  int       `json:"choices"`
			}
			r := rep{Log: x.Log, Fails: x.Fails, Panic: x.Panic, Deadlock: x.Deadlock, Steps: x.Steps, Threads: x.Threads, Choices: len(x.Choices)}
			if err != nil {
				r.Err = err.Error()
			}
			_ = WriteJSON(*out, r)
			if *verbose {
				for _, l := range x.Log {
					fmt.Fprintln(os.Stderr, l)
				}
			}
			if err != nil {
				return 3
			}
			return 0
		}
		var k, w int
		if _, err := fmt.Sscanf(*shard, "%d/%d", &k, &w); err != nil || w < 1 {
			fmt.Fprintln(os.Stderr, "bad shard")
			return 2
		}
		b := *budget
		if b == 0 {
			b = v.BudgetS
		}
		var res *Result
		if h.Kind == "enum" {
			res = runEnum(h, *v, *tier, k, w, time.Duration(b)*time.Second)
		} else {
			o := Options{Bound: v.Bound, ShardK: k, ShardW: w, MaxExec: *maxExec, NoCache: v.NoCache, MaxSteps: v.MaxSteps, Iterate: v.Iterate, KeepGoing: true}
			if v.Delay {
				o.FreeCost = 1
			}
			NewestFirst = v.LIFO
			if b > 0 {
				o.Deadline = time.Now().Add(time.Duration(b) * time.Second)
			}
			res = Explore(h.Name, v.Name, h.Sched(*v), o)
		}
		if err := WriteJSON(*out, res); err != nil {
			fmt.Fprintln(os.Stderr, err)
			return 2
		}
		return 0
	}
	fmt.Fprintln(os.Stderr, "unknown command", args[0])
	return 2
}

var _ = json.Marshal
