// Package vrand mirrors crypto/rand: deterministic per execution in SCHED mode.
package vrand

import (
	"crypto/rand"
	"io"

	"github.com/centrifugal/centrifuge/internal/zzverif/vsched"
)

var ctr uint64

func init() { vsched.OnReset(func() { ctr = 0 }) }

type reader struct{}

func (reader) Read(b []byte) (int, error) {
	if !vsched.Active() {
		return rand.Read(b)
	}
	for i := range b {
		ctr = ctr*6364136223846793005 + 1442695040888963407
		b[i] = byte(ctr >> 33)
	}
	return len(b), nil
}

// Reader mirrors crypto/rand.Reader.
var Reader io.Reader = reader{}

// Read mirrors crypto/rand.Read.
func Read(b []byte) (int, error) { return Reader.Read(b) }
