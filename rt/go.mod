module github.com/centrifugal/centrifuge/internal/zzverif

go 1.25.0
