package rttest

import (
	"testing"

	atomic "github.com/centrifugal/centrifuge/internal/zzverif/vatomic"
	context "github.com/centrifugal/centrifuge/internal/zzverif/vctx"
	"github.com/centrifugal/centrifuge/internal/zzverif/vsched"
	sync "github.com/centrifugal/centrifuge/internal/zzverif/vsync"
	time "github.com/centrifugal/centrifuge/internal/zzverif/vtime"
)

func TestLostUpdate(t *testing.T) {
	body := func() {
		var x atomic.Int64
		var wg sync.WaitGroup
		for i := 0; i < 2; i++ {
			wg.Add(1)
			vsched.Go(func() {
				defer wg.Done()
				v := x.Load()
				x.Store(v + 1)
			})
		}
		wg.Wait()
		vsched.Logf("x=%d", x.Load())
		if x.Load() != 2 {
			vsched.Failf("lost", "x=%d", x.Load())
		}
	}
	r := vsched.Explore("lost", "", body, vsched.Options{Bound: 0, KeepGoing: true})
	if len(r.Violations) != 0 {
		t.Fatalf("bound 0 should not find it: %+v", r.Violations[0])
	}
	r = vsched.Explore("lost", "", body, vsched.Options{Bound: 1, KeepGoing: true})
	if len(r.Violations) != 1 {
		t.Fatalf("bound 1 should find it: %d", len(r.Violations))
	}
	t.Logf("execs=%d states=%d pruned=%d distinct=%d choices=%v", r.Executions, r.States, r.Pruned, len(r.LogHashes), r.Violations[0].Choices)
	x, err := vsched.Replay(body, r.Violations[0].Choices, 5)
	if err != nil || len(x.Fails) != 1 {
		t.Fatalf("replay: %v %+v", err, x)
	}
	rn := vsched.Explore("lost", "", body, vsched.Options{Bound: 2, KeepGoing: true, NoCache: true})
	rc := vsched.Explore("lost", "", body, vsched.Options{Bound: 2, KeepGoing: true})
	t.Logf("nocache execs=%d distinct=%d; cache execs=%d pruned=%d distinct=%d", rn.Executions, len(rn.LogHashes), rc.Executions, rc.Pruned, len(rc.LogHashes))
	if len(rn.LogHashes) != len(rc.LogHashes) || len(rn.Violations) != len(rc.Violations) {
		t.Fatalf("cache changes outcomes")
	}
}

func TestMutexOK(t *testing.T) {
	body := func() {
		var mu sync.Mutex
		x := 0
		var wg sync.WaitGroup
		for i := 0; i < 3; i++ {
			wg.Add(1)
			vsched.Go(func() {
				defer wg.Done()
				mu.Lock()
				x++
				mu.Unlock()
			})
		}
		wg.Wait()
		if x != 3 {
			vsched.Failf("lost", "x=%d", x)
		}
	}
	r := vsched.Explore("mu", "", body, vsched.Options{Bound: 3, KeepGoing: true})
	if len(r.Violations) != 0 || !r.Exhaustive {
		t.Fatalf("unexpected: %+v", r)
	}
	t.Logf("execs=%d states=%d pruned=%d", r.Executions, r.States, r.Pruned)
}

func TestChannels(t *testing.T) {
	body := func() {
		un := make(chan int)
		buf := make(chan int, 1)
		done := make(chan struct{})
		vsched.Go(func() {
			vsched.SendTo(un).V(1)
			vsched.SendTo(buf).V(2)
			vsched.SendTo(buf).V(3)
			vsched.Close(done)
		})
		got := []int{}
		for len(got) < 3 {
			switch c0, c1 := vsched.RecvCase(un), vsched.RecvCase(buf); vsched.Select(false, c0, c1) {
			case 0:
				got = append(got, c0.Got())
			case 1:
				v, ok := c1.Got2()
				if !ok {
					vsched.Failf("closed", "buf closed")
				}
				got = append(got, v)
			}
		}
		_, ok := vsched.Recv2(done)
		vsched.Logf("got=%v ok=%v", got, ok)
		if got[0] != 1 || got[1] != 2 || got[2] != 3 || ok {
			vsched.Failf("order", "got=%v", got)
		}
	}
	r := vsched.Explore("ch", "", body, vsched.Options{Bound: 3, KeepGoing: true})
	if len(r.Violations) != 0 || !r.Exhaustive {
		t.Fatalf("unexpected: %+v", r.Violations[0])
	}
	t.Logf("execs=%d states=%d pruned=%d", r.Executions, r.States, r.Pruned)
}

func TestDeadlockAndTimers(t *testing.T) {
	body := func() {
		var a, b sync.Mutex
		var wg sync.WaitGroup
		wg.Add(2)
		vsched.Go(func() { defer wg.Done(); a.Lock(); b.Lock(); b.Unlock(); a.Unlock() })
		vsched.Go(func() { defer wg.Done(); b.Lock(); a.Lock(); a.Unlock(); b.Unlock() })
		wg.Wait()
	}
	r := vsched.Explore("dl", "", body, vsched.Options{Bound: 1, KeepGoing: true})
	if len(r.Violations) != 1 || r.Violations[0].Kind != "deadlock" {
		t.Fatalf("expected deadlock: %+v", r)
	}
	body2 := func() {
		fired := 0
		time.AfterFunc(2*time.Second, func() { fired++ })
		tm := time.NewTimer(time.Second)
		ctx, cancel := context.WithTimeout(context.Background(), 3*time.Second)
		defer cancel()
		start := time.Now()
		vsched.SetHorizon(int64(10 * time.Second))
		vsched.Recv(tm.C)
		if time.Since(start) != time.Second {
			vsched.Failf("t1", "since=%v", time.Since(start))
		}
		vsched.Recv(ctx.Done())
		if time.Since(start) != 3*time.Second || fired != 1 || ctx.Err() != context.DeadlineExceeded {
			vsched.Failf("t2", "since=%v fired=%d", time.Since(start), fired)
		}
		time.Sleep(time.Second)
		if time.Since(start) != 4*time.Second {
			vsched.Failf("t3", "since=%v", time.Since(start))
		}
		tm.Reset(time.Second)
		vsched.Advance(int64(2 * time.Second))
		if tm.Stop() != true { // stale value drained => true (Go 1.23 semantics)
			vsched.Failf("t4", "stop")
		}
		switch c0 := vsched.RecvCase(tm.C); vsched.Select(true, c0) {
		case 0:
			vsched.Failf("t5", "stale timer value")
		}
	}
	r = vsched.Explore("tm", "", body2, vsched.Options{Bound: 0, KeepGoing: true})
	if len(r.Violations) != 0 {
		t.Fatalf("timers: %+v", r.Violations[0])
	}
}

func TestCondOnceRW(t *testing.T) {
	body := func() {
		var mu sync.Mutex
		c := sync.NewCond(&mu)
		ready := false
		var once sync.Once
		n := 0
		var rw sync.RWMutex
		var wg sync.WaitGroup
		wg.Add(2)
		vsched.Go(func() {
			defer wg.Done()
			mu.Lock()
			for !ready {
				c.Wait()
			}
			mu.Unlock()
			once.Do(func() { n++ })
			rw.RLock()
			rw.RUnlock()
		})
		vsched.Go(func() {
			defer wg.Done()
			once.Do(func() { n++ })
			rw.Lock()
			mu.Lock()
			ready = true
			c.Broadcast()
			mu.Unlock()
			rw.Unlock()
		})
		wg.Wait()
		if n != 1 {
			vsched.Failf("once", "n=%d", n)
		}
	}
	r := vsched.Explore("cond", "", body, vsched.Options{Bound: 2, KeepGoing: true})
	if len(r.Violations) != 0 || !r.Exhaustive {
		t.Fatalf("unexpected: %+v", r.Violations)
	}
	t.Logf("execs=%d states=%d pruned=%d", r.Executions, r.States, r.Pruned)
}
