// Package vctx mirrors the parts of package context used by centrifuge. In SCHED mode
// cancellation and deadlines are driven by vsched so that waiters wake deterministically.
package vctx

import (
	"context"
	"time"

	"github.com/centrifugal/centrifuge/internal/zzverif/vsched"
	"github.com/centrifugal/centrifuge/internal/zzverif/vtime"
)

type (
	Context         = context.Context
	CancelFunc      = context.CancelFunc
	CancelCauseFunc = context.CancelCauseFunc
)

var (
	Canceled         = context.Canceled
	DeadlineExceeded = context.DeadlineExceeded
)

func Background() Context                   { return context.Background() }
func TODO() Context                         { return context.TODO() }
func WithValue(p Context, k, v any) Context { return context.WithValue(p, k, v) }
func Cause(c Context) error                 { return context.Cause(c) }
func WithoutCancel(p Context) Context       { return context.WithoutCancel(p) }

type vkey struct{}

type vctx struct {
	parent   Context
	done     chan struct{}
	err      error
	deadline time.Time
	hasDL    bool
	children []*vctx
	timer    *vtime.Timer
}

func (c *vctx) Deadline() (time.Time, bool) {
	if c.hasDL {
		return c.deadline, true
	}
	return c.parent.Deadline()
}
func (c *vctx) Done() <-chan struct{} { return c.done }
func (c *vctx) Err() error {
	vsched.Len(c.done) // scheduling point + happens-before edge with the cancel
	return c.err
}
func (c *vctx) Value(k any) any {
	if _, ok := k.(vkey); ok {
		return c
	}
	return c.parent.Value(k)
}

func (c *vctx) cancel(err error) {
	if c.err != nil {
		return
	}
	c.err = err
	vsched.Close(c.done)
	if c.timer != nil {
		c.timer.Stop()
	}
	for _, ch := range c.children {
		ch.cancel(err)
	}
	c.children = nil
}

func newCtx(parent Context) *vctx {
	c := &vctx{parent: parent, done: make(chan struct{})}
	if p, ok := parent.Value(vkey{}).(*vctx); ok {
		if p.err != nil {
			c.cancel(p.err)
		} else {
			p.children = append(p.children, c)
		}
	} else if d := parent.Done(); d != nil {
		vsched.Go(func() {
			switch c0, c1 := vsched.RecvCase(d), vsched.RecvCase[struct{}](c.done); vsched.Select(false, c0, c1) {
			case 0:
				c.cancel(parent.Err())
			}
		})
	}
	return c
}

func WithCancel(parent Context) (Context, CancelFunc) {
	if !vsched.Active() {
		return context.WithCancel(parent)
	}
	c := newCtx(parent)
	return c, func() {
		if vsched.Killed() {
			return
		}
		c.cancel(Canceled)
	}
}

func WithDeadline(parent Context, d time.Time) (Context, CancelFunc) {
	if !vsched.Active() {
		return context.WithDeadline(parent, d)
	}
	return WithTimeout(parent, vtime.Until(d))
}

func WithTimeout(parent Context, d time.Duration) (Context, CancelFunc) {
	if !vsched.Active() {
		return context.WithTimeout(parent, d)
	}
	c := newCtx(parent)
	c.deadline, c.hasDL = vtime.Now().Add(d), true
	if pd, ok := parent.Deadline(); ok && pd.Before(c.deadline) {
		c.deadline = pd
	}
	if c.err == nil {
		c.timer = vtime.AfterFunc(d, func() { c.cancel(DeadlineExceeded) })
	}
	return c, func() {
		if vsched.Killed() {
			return
		}
		c.cancel(Canceled)
	}
}
