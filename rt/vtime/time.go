// Package vtime mirrors the parts of package time used by centrifuge on the virtual clock of
// vsched (SCHED mode) or the real clock (REAL mode).
package vtime

import (
	"time"

	"github.com/centrifugal/centrifuge/internal/zzverif/vsched"
)

type (
	Duration = time.Duration
	Time     = time.Time
	Month    = time.Month
	Weekday  = time.Weekday
	Location = time.Location
)

const (
	Nanosecond  = time.Nanosecond
	Microsecond = time.Microsecond
	Millisecond = time.Millisecond
	Second      = time.Second
	Minute      = time.Minute
	Hour        = time.Hour
	RFC3339     = time.RFC3339
	RFC3339Nano = time.RFC3339Nano
	RFC1123     = time.RFC1123
)

var (
	UTC   = time.UTC
	Local = time.Local
)

func ParseDuration(s string) (Duration, error) { return time.ParseDuration(s) }
func Unix(s, n int64) Time                     { return time.Unix(s, n) }
func UnixMilli(m int64) Time                   { return time.UnixMilli(m) }
func UnixMicro(m int64) Time                   { return time.UnixMicro(m) }
func Date(y int, m Month, d, h, mi, s, n int, l *Location) Time {
	return time.Date(y, m, d, h, mi, s, n, l)
}

// Now returns the virtual time in SCHED mode.
func Now() Time {
	if !vsched.Active() {
		return time.Now()
	}
	return time.Unix(0, vsched.BaseUnixNano+vsched.Now())
}

func Since(t Time) Duration { return Now().Sub(t) }
func Until(t Time) Duration { return t.Sub(Now()) }

func Sleep(d Duration) {
	if !vsched.Active() {
		time.Sleep(d)
		return
	}
	vsched.Sleep(int64(d))
}

// Timer mirrors time.Timer.
type Timer struct {
	C    <-chan Time
	c    chan Time
	real *time.Timer
	vt   *vsched.Timer
}

func NewTimer(d Duration) *Timer {
	if !vsched.Active() {
		rt := time.NewTimer(d)
		return &Timer{C: rt.C, real: rt}
	}
	c := make(chan Time, 1)
	t := &Timer{C: c, c: c}
	t.vt = vsched.NewTimerAt(int64(d), 0, nil, vsched.InlineSend(c, timeAt))
	return t
}

func timeAt(now int64) Time { return time.Unix(0, vsched.BaseUnixNano+now) }

func AfterFunc(d Duration, f func()) *Timer {
	if !vsched.Active() {
		return &Timer{real: time.AfterFunc(d, f)}
	}
	t := &Timer{}
	t.vt = vsched.NewTimerAt(int64(d), 0, f, nil)
	return t
}

func After(d Duration) <-chan Time { return NewTimer(d).C }

func (t *Timer) Stop() bool {
	if t.real != nil {
		return t.real.Stop()
	}
	if !vsched.Active() || vsched.Killed() {
		return false
	}
	was := vsched.StopTimer(t.vt)
	if t.c != nil && vsched.DrainChan(t.c) {
		was = true
	}
	return was
}

func (t *Timer) Reset(d Duration) bool {
	if t.real != nil {
		return t.real.Reset(d)
	}
	if !vsched.Active() || vsched.Killed() {
		return false
	}
	drained := t.c != nil && vsched.DrainChan(t.c)
	return vsched.ResetTimer(t.vt, int64(d)) || drained
}

// Ticker mirrors time.Ticker.
type Ticker struct {
	C    <-chan Time
	c    chan Time
	real *time.Ticker
	vt   *vsched.Timer
}

func NewTicker(d Duration) *Ticker {
	if d <= 0 {
		panic("non-positive interval for NewTicker")
	}
	if !vsched.Active() {
		rt := time.NewTicker(d)
		return &Ticker{C: rt.C, real: rt}
	}
	c := make(chan Time, 1)
	t := &Ticker{C: c, c: c}
	t.vt = vsched.NewTimerAt(int64(d), int64(d), nil, vsched.InlineSend(c, timeAt))
	return t
}

func Tick(d Duration) <-chan Time { return NewTicker(d).C }

func (t *Ticker) Stop() {
	if t.real != nil {
		t.real.Stop()
		return
	}
	if !vsched.Active() || vsched.Killed() {
		return
	}
	vsched.StopTimer(t.vt)
	vsched.DrainChan(t.c)
}

func (t *Ticker) Reset(d Duration) {
	if t.real != nil {
		t.real.Reset(d)
		return
	}
	if !vsched.Active() || vsched.Killed() {
		return
	}
	vsched.ResetPeriodic(t.vt, int64(d))
}
